/-
  Model of the concurrent interning protocol of scryer-prolog's global atom table
  (`src/atom_table.rs`, `AtomTable::build_with`, and `src/raw_block.rs`), property C32.

  A transition system: a shared state (all versions of the RCU-published `InnerAtomTable`, all
  versions of the RCU-published index, the id of the currently published inner table, the owner
  of the `update` mutex) and one local state per thread (program counter through the protocol
  points of `build_with`, the text being interned, the snapshots `block_epoch` / `table_epoch` it
  holds).  `step cfg s t` performs the next atomic action of thread `t`; a schedule is a list of
  thread ids.

  What is mirrored, action by action (line numbers of src/atom_table.rs):
    idle          490-492  inline check (1..6 bytes, no NUL): return without touching the table
    readInner     495      `block_epoch = atom_table.inner.read()`
    readTable     496      `table_epoch = block_epoch.table.read()`
    lookup        498      `lookup_str`: static map, else `self.table.read().get(string)` (a fresh
                           read of the snapshot inner's index; entries are compared through
                           `Atom::as_str`, which resolves offsets against the CURRENTLY published
                           inner table)
    lock          503      `atom_table.update.lock()` (disabled while another thread owns it)
    recheck       505-513  both `same_epoch` tests (= `Arc::ptr_eq` on the still-held snapshot, so
                           version identity; no ABA); on failure the guard is dropped and the call
                           starts over
    alloc         520-529  `block.alloc(size)`; on exhaustion `grow_new` (capacity doubled, used
                           bytes copied) and a new index cell holding a clone of `table_epoch`
    publishInner  530-532  `inner.replace(new)`, then both snapshots are re-read
    write         539-541  `write_to_ptr` (header + bytes) at the allocated offset
    publish       552-554  clone `table_epoch`, insert the atom, `block_epoch.table.replace`
    unlock        557-559  drop the guard, return the atom

  What is abstracted (stated in notes/design/C32.md): every action above is ONE atomic,
  sequentially consistent step (hardware memory ordering, the internals of `arcu`
  (epoch counters, `wait_for_epochs`, reclamation) and of the mutex are outside the model);
  bytes of the block are abstracted to the list of `(offset, text)` cells written; hashing of the
  `IndexSet` is abstracted to a search through the insertion-ordered list of offsets.

  `Cfg.recheck = false` removes the re-check (the call proceeds to allocate with whatever
  snapshot it has): used only to show that the theorems are sensitive to it.
-/
namespace Scryer.AtomProto

/-- the UTF-8 bytes of an atom's text -/
abbrev Text := List Nat
abbrev Tid := Nat

/-- pointwise update of a `Nat`-indexed family -/
def upd {α : Type} (f : Nat → α) (k : Nat) (v : α) : Nat → α := fun i => if i = k then v else f i

structure Cfg where
  /-- `ATOM_TABLE_INIT_SIZE` (65536 in the code; the verification hook makes it configurable) -/
  initCap : Nat
  /-- membership in `STATIC_ATOMS_MAP` (fixed at build time) -/
  isStatic : Text → Bool
  /-- `false` = the protocol WITHOUT the re-check under the lock (sensitivity only) -/
  recheck : Bool := true

/-- `!string.is_empty() && string.len() <= INLINED_ATOM_MAX_LEN && !string.contains('\0')` -/
def inlinable (t : Text) : Bool := !t.isEmpty && decide (t.length ≤ 6) && !t.contains 0

/-- `(size_of::<AtomHeader>() + len).next_multiple_of(8)` -/
def allocSize (t : Text) : Nat := (8 + t.length + 7) / 8 * 8

/-- search of the cell written at an offset -/
def lookupOff (o : Nat) : List (Nat × Text) → Option Text
  | [] => none
  | (k, x) :: r => if o = k then some x else lookupOff o r

/-- a `RawBlock`: capacity, bump pointer, and the atoms written so far (most recent first) -/
structure Block where
  cap : Nat
  used : Nat
  cells : List (Nat × Text)

/-- the text stored at an offset of the block (what `Atom::as_ptr` reads there) -/
def Block.textAt (b : Block) (o : Nat) : Option Text := lookupOff o b.cells

/-- one version of `InnerAtomTable`: the block and the id of the index version that its
    `table` cell currently publishes -/
structure Inner where
  block : Block
  tcur : Nat

inductive Atom where
  | inl (t : Text)      -- inlined: the text itself is the index
  | stat (t : Text)     -- static: index into the build-time table
  | dyn (off : Nat)     -- dynamic: `STRINGS.len() + off`
  deriving DecidableEq, Repr

inductive PC where
  | idle | readInner | readTable | lookup | lock | recheck | alloc | publishInner | write
  | publish | unlock
  deriving DecidableEq, Repr

structure Local where
  pc : PC
  /-- texts still to be interned by this thread -/
  script : List Text
  /-- argument of the call in progress -/
  text : Text
  /-- `block_epoch`: id of the inner-table version held -/
  bi : Nat
  /-- `table_epoch`: id of the index version held -/
  ti : Nat
  /-- offset returned by `alloc` -/
  off : Nat
  /-- id of the grown inner table built but not yet published -/
  nb : Nat
  /-- completed calls, most recent first: (text, atom returned) -/
  results : List (Text × Atom)

structure Shared where
  /-- all versions of the inner table ever created; ids below `ninners` are in use -/
  inners : Nat → Inner
  ninners : Nat
  /-- all versions of the index (insertion-ordered set of offsets) -/
  tables : Nat → List Nat
  ntables : Nat
  /-- id of the inner table currently published in `AtomTable::inner` -/
  cur : Nat
  /-- owner of `AtomTable::update` -/
  lock : Option Tid

/-- the block of the currently published inner table (what `Atom::as_str` resolves against) -/
def Shared.blk (sh : Shared) : Block := (sh.inners sh.cur).block
/-- the index currently published in the currently published inner table -/
def Shared.tbl (sh : Shared) : List Nat := sh.tables (sh.inners sh.cur).tcur

structure State where
  sh : Shared
  locals : Tid → Local

/-- `IndexSet::get(text)`: an entry whose text (resolved in block `b`) equals `x` -/
def tableLookup (b : Block) (tbl : List Nat) (x : Text) : Option Nat :=
  tbl.find? (fun o => b.textAt o == some x)

/-- `IndexSet::insert` (entries are equal iff their indices are equal) -/
def insertSet (tbl : List Nat) (o : Nat) : List Nat := if o ∈ tbl then tbl else tbl ++ [o]

def finish (l : Local) (a : Atom) : Local :=
  { l with pc := .idle, results := (l.text, a) :: l.results }

/-- the next atomic action of thread `t` whose local state is `l` -/
def stepT (cfg : Cfg) (sh : Shared) (t : Tid) (l : Local) : Shared × Local :=
  match l.pc with
  | .idle =>
    match l.script with
    | [] => (sh, l)
    | x :: rest =>
      if inlinable x then
        (sh, { l with script := rest, text := x, results := (x, .inl x) :: l.results })
      else (sh, { l with script := rest, text := x, pc := .readInner })
  | .readInner => (sh, { l with bi := sh.cur, pc := .readTable })
  | .readTable => (sh, { l with ti := (sh.inners l.bi).tcur, pc := .lookup })
  | .lookup =>
    if cfg.isStatic l.text then (sh, finish l (.stat l.text))
    else
      match tableLookup sh.blk (sh.tables (sh.inners l.bi).tcur) l.text with
      | some o => (sh, finish l (.dyn o))
      | none => (sh, { l with pc := .lock })
  | .lock =>
    match sh.lock with
    | none => ({ sh with lock := some t }, { l with pc := .recheck })
    | some _ => (sh, l)
  | .recheck =>
    if cfg.recheck = false ∨ (l.bi = sh.cur ∧ l.ti = (sh.inners l.bi).tcur) then
      (sh, { l with pc := .alloc })
    else ({ sh with lock := none }, { l with pc := .readInner })
  | .alloc =>
    let I := sh.inners l.bi
    if allocSize l.text ≤ I.block.cap - I.block.used then
      ({ sh with inners := (upd sh.inners l.bi
            { I with block := { I.block with used := I.block.used + allocSize l.text } }) },
       { l with off := I.block.used, pc := .write })
    else
      ({ sh with
            inners := (upd sh.inners sh.ninners
              { block := { cap := 2 * I.block.cap, used := I.block.used, cells := I.block.cells },
                tcur := sh.ntables }),
            ninners := sh.ninners + 1,
            tables := upd sh.tables sh.ntables (sh.tables l.ti),
            ntables := sh.ntables + 1 },
       { l with nb := sh.ninners, pc := .publishInner })
  | .publishInner =>
    ({ sh with cur := l.nb },
     { l with bi := l.nb, ti := (sh.inners l.nb).tcur, pc := .alloc })
  | .write =>
    let I := sh.inners l.bi
    ({ sh with inners := (upd sh.inners l.bi
          { I with block := { I.block with cells := (l.off, l.text) :: I.block.cells } }) },
     { l with pc := .publish })
  | .publish =>
    let I := sh.inners l.bi
    ({ sh with
          tables := upd sh.tables sh.ntables (insertSet (sh.tables l.ti) l.off),
          ntables := sh.ntables + 1,
          inners := upd sh.inners l.bi { I with tcur := sh.ntables } },
     { l with pc := .unlock })
  | .unlock => ({ sh with lock := none }, finish l (.dyn l.off))

/-- thread `t` performs its next atomic action -/
def step (cfg : Cfg) (s : State) (t : Tid) : State :=
  let r := stepT cfg s.sh t (s.locals t)
  { sh := r.1, locals := upd s.locals t r.2 }

/-- a schedule: the sequence of thread ids that take steps -/
def run (cfg : Cfg) (s : State) (sched : List Tid) : State := sched.foldl (step cfg) s

def initShared (cfg : Cfg) : Shared :=
  { inners := fun _ => { block := { cap := cfg.initCap, used := 0, cells := [] }, tcur := 0 },
    ninners := 1, tables := fun _ => [], ntables := 1, cur := 0, lock := none }

def initLocal (script : List Text) : Local :=
  { pc := .idle, script := script, text := [], bi := 0, ti := 0, off := 0, nb := 0, results := [] }

/-- fresh table; thread `t` is going to intern the texts `scripts t` in order -/
def init (cfg : Cfg) (scripts : Tid → List Text) : State :=
  { sh := initShared cfg, locals := fun t => initLocal (scripts t) }

/-- `Atom::as_str` against the currently published table -/
def atomText (sh : Shared) : Atom → Option Text
  | .inl x => some x
  | .stat x => some x
  | .dyn o => sh.blk.textAt o

/-- thread `t` has finished its script -/
def finished (s : State) (t : Tid) : Bool :=
  (s.locals t).pc == .idle && (s.locals t).script.isEmpty

/-- deterministic completion: round-robin over threads `0..n-1` for at most `fuel` rounds -/
def runRR (cfg : Cfg) (n : Nat) : Nat → State → State
  | 0, s => s
  | fuel + 1, s =>
    if (List.range n).all (finished s) then s
    else runRR cfg n fuel (run cfg s (List.range n))

end Scryer.AtomProto
