/-
C38, part B — the specification of tabled evaluation: the least fixpoint of the immediate
consequence operator of a Datalog program over a finite constant set.

* A program is a list of rules `head :- b₁,…,bₙ` (facts are rules with an empty body); atoms are a
  predicate symbol applied to constants and variables.  Predicates, constants and variables are
  natural numbers (the correspondence run renders them as `p3_<case>`, `k2`, `V1`).
* `D` is the finite constant domain (the Herbrand universe of a function-free program).
* `step P D I` lists every ground head instance of a rule all of whose ground body instances are in
  `I`; the ground instances are obtained by enumerating every assignment of the rule's variables
  over `D` (`assigns`).  There is no evaluation order in this definition: the body is a set of
  membership tests, the rules are a set.
* `tp` = duplicate-free `step` (the operator T_P), `iter n` = T_P^n(∅), `base P D` = all ground
  head instances (the part of the Herbrand base that can ever be derived), `lfp` = Kleene iteration
  from ∅ with fuel `|base|`, stopping early when nothing new is derived.
* `answers P D q` = the assignments of the query's variables over `D` whose instance is in `lfp`.
Import-free.
-/
namespace Scryer.Lfp

inductive Arg where
  | const (c : Nat)
  | var (v : Nat)
  deriving DecidableEq, Repr, Inhabited

structure Atom where
  pred : Nat
  args : List Arg
  deriving DecidableEq, Repr, Inhabited

/-- ground atom -/
structure GAtom where
  pred : Nat
  args : List Nat
  deriving DecidableEq, Repr, Inhabited

structure Rule where
  head : Atom
  body : List Atom
  deriving DecidableEq, Repr, Inhabited

abbrev Program := List Rule
/-- an interpretation: a finite set of ground atoms, as a list -/
abbrev Interp := List GAtom
/-- an assignment of constants to finitely many variables (association list) -/
abbrev Asg := List (Nat × Nat)

/-! ### variables and instances -/

def Arg.vars : Arg → List Nat
  | .const _ => []
  | .var v => [v]

def Arg.inst (σ : Nat → Nat) : Arg → Nat
  | .const c => c
  | .var v => σ v

def Atom.vars (a : Atom) : List Nat := a.args.flatMap Arg.vars

def Atom.inst (σ : Nat → Nat) (a : Atom) : GAtom := ⟨a.pred, a.args.map (Arg.inst σ)⟩

def Rule.vars (r : Rule) : List Nat := r.head.vars ++ r.body.flatMap Atom.vars

/-- remove duplicates (keeps the last occurrence) -/
def dedup {α : Type} [DecidableEq α] : List α → List α
  | [] => []
  | a :: l => if a ∈ l then dedup l else a :: dedup l

def look : Asg → Nat → Option Nat
  | [], _ => none
  | (w, d) :: l, v => if w = v then some d else look l v

/-- the valuation denoted by an assignment list (variables outside the list are never consulted
    by the definitions below: every use is on the variables the list was built for). -/
def val (l : Asg) (v : Nat) : Nat := (look l v).getD 0

/-- every assignment of the variables `vs` over the domain `D` -/
def assigns (D : List Nat) : List Nat → List Asg
  | [] => [[]]
  | v :: vs => D.flatMap fun d => (assigns D vs).map fun l => (v, d) :: l

/-! ### the immediate consequence operator -/

/-- the consequences of one rule under `I` -/
def fire (D : List Nat) (I : Interp) (r : Rule) : List GAtom :=
  (assigns D (dedup r.vars)).filterMap fun l =>
    if r.body.all (fun b => decide (b.inst (val l) ∈ I)) then some (r.head.inst (val l)) else none

def step (P : Program) (D : List Nat) (I : Interp) : List GAtom := P.flatMap (fire D I)

/-- T_P -/
def tp (P : Program) (D : List Nat) (I : Interp) : Interp := dedup (step P D I)

/-- T_P^n(∅) -/
def iter (P : Program) (D : List Nat) : Nat → Interp
  | 0 => []
  | n+1 => tp P D (iter P D n)

/-- all ground head instances: everything that can ever be derived -/
def base (P : Program) (D : List Nat) : List GAtom :=
  dedup (P.flatMap fun r => (assigns D (dedup r.vars)).map fun l => r.head.inst (val l))

/-- Kleene iteration with early exit -/
def lfpAux (P : Program) (D : List Nat) : Nat → Interp → Interp
  | 0, I => I
  | n+1, I =>
      let J := tp P D I
      if J.all (fun a => decide (a ∈ I)) then I else lfpAux P D n J

/-- the least fixpoint: fuel = size of the base -/
def lfp (P : Program) (D : List Nat) : Interp := lfpAux P D (base P D).length []

/-- number of T_P applications until nothing new appears (reporting only) -/
def roundsAux (P : Program) (D : List Nat) : Nat → Interp → Nat → Nat
  | 0, _, k => k
  | n+1, I, k =>
      let J := tp P D I
      if J.all (fun a => decide (a ∈ I)) then k else roundsAux P D n J (k+1)

/-- `M` is a (Herbrand) model of `P`: closed under every ground rule instance -/
def IsModel (P : Program) (D : List Nat) (M : Interp) : Prop := ∀ a ∈ step P D M, a ∈ M

/-- the answers to the query `q` given the least fixpoint `L`: assignments of the query's variables -/
def answersIn (L : Interp) (D : List Nat) (q : Atom) : List Asg :=
  (assigns (dedup D) (dedup q.vars)).filter fun l => decide (q.inst (val l) ∈ L)

def answers (P : Program) (D : List Nat) (q : Atom) : List Asg := answersIn (lfp P D) D q

end Scryer.Lfp
