/-!
# Model of the file-system predicates of `library(files)` (property C48)

Layers (bottom up), all pure functions:

1. `Fs`: the file-system tree as a finite map from paths (lists of names below the scratch root)
   to entries (`dir` or `file bytes`); the root `[]` is always a directory. A tree is the
   prefix-closed path map (`WF` in `Proofs/FsTree.lean`).
2. POSIX path resolution `walk`/`resolve` (empty components, `.`, `..`, trailing slash,
   NAME_MAX, a file used as a directory) — symlink-free.
3. the system calls used by Rust's `std::fs` (`stat`, `mkdir`, `rmdir`, `unlink`, `rename`,
   `open+copy`, `readdir`, `realpath`) and the `std` functions built from them
   (`create_dir_all` with `Path::parent`'s component normalisation, `Path::exists` + `metadata`).
4. `src/machine/system_calls.rs` + `src/lib/files.pl`: argument checks (`must_be(chars, _)` with
   its type-error-before-instantiation-error priority, `can_be` on output arguments),
   `file_must_exist` / `directory_must_exist`, failure instead of an error for every failing
   system call.
5. `path_segments/2` as a list function (`splitC` = `path_to_segments/3`, `joinC` =
   `append_with_separator//2`).
-/
namespace Scryer.FsTree

abbrev Name := String
abbrev Path := List Name

inductive Entry where
  | file (bytes : List UInt8)
  | dir
  deriving DecidableEq, Repr, Inhabited

/-- association list; the first binding of a path counts. The root `[]` is not stored. -/
abbrev Fs := List (Path × Entry)

def find : Fs → Path → Option Entry
  | [], _ => none
  | (k, e) :: r, p => if k = p then some e else find r p

/-- what is at path `p` (the root is always a directory) -/
def get (fs : Fs) (p : Path) : Option Entry := if p = [] then some .dir else find fs p

def erase (fs : Fs) (p : Path) : Fs := fs.filter (fun x => decide (x.1 ≠ p))

def set (fs : Fs) (p : Path) (e : Entry) : Fs := (p, e) :: erase fs p

/-- names of the entries directly below directory `d` -/
def children (fs : Fs) (d : Path) : List Name :=
  fs.filterMap fun x =>
    match x.1.getLast? with
    | some n => if x.1.dropLast = d then some n else none
    | none => none

/-! ## path strings -/

/-- `path_to_segments/3`: split at every separator (`"" ↦ [""]`, `"/" ↦ ["",""]`) -/
def splitC : List Char → List (List Char)
  | [] => [[]]
  | c :: cs =>
    if c = '/' then [] :: splitC cs
    else match splitC cs with
      | s :: ss => (c :: s) :: ss
      | [] => [[c]]

/-- `append_with_separator//2` -/
def joinC : List (List Char) → List Char
  | [] => []
  | [s] => s
  | s :: t :: r => s ++ '/' :: joinC (t :: r)

def comps (s : String) : List Name := (splitC s.toList).map String.ofList

def isAbs (s : String) : Bool := s.toList.head? == some '/'

def nameMax : Nat := 255

inductive Errno where
  | noent | notdir | exist | isdir | notempty | inval | nametoolong
  | outside   -- the path leaves the scratch root: not modelled
  deriving DecidableEq, Repr

/-- result of resolving a path -/
inductive Loc where
  | found (p : Path) (e : Entry)
  | missing (parent : Path) (n : Name) (slash : Bool)  -- last name absent in an existing directory
  | err (e : Errno)
  deriving DecidableEq, Repr

/-- POSIX path walk from directory `cur` over the raw components -/
def walk (fs : Fs) : Path → List Name → Loc
  | cur, [] => .found cur .dir
  | cur, c :: rest =>
    if c = "" ∨ c = "." then walk fs cur rest
    else if c = ".." then (if cur = [] then .err .outside else walk fs cur.dropLast rest)
    else if c.utf8ByteSize > nameMax then .err .nametoolong
    else match get fs (cur ++ [c]) with
      | none => if rest.all (· == "") then .missing cur c (!rest.isEmpty) else .err .noent
      | some .dir => walk fs (cur ++ [c]) rest
      | some (.file b) => if rest = [] then .found (cur ++ [c]) (.file b) else .err .notdir

/-- absolute paths start at the (scratch) root, relative ones at the working directory, which
must still be a directory (a removed working directory resolves nothing; the scripts never
remove it) -/
def resolve (fs : Fs) (cwd : Path) (s : String) : Loc :=
  if s = "" then .err .noent
  else if isAbs s then walk fs [] (comps s)
  else if get fs cwd = some .dir then walk fs cwd (comps s)
  else .err .noent

/-! ## system calls -/

def stat (fs : Fs) (cwd : Path) (s : String) : Option Entry :=
  match resolve fs cwd s with
  | .found _ e => some e
  | _ => none

/-- `Path::exists() && metadata().is_file()` -/
def isFile (fs : Fs) (cwd : Path) (s : String) : Bool :=
  match stat fs cwd s with
  | some (.file _) => true
  | _ => false

def isDir (fs : Fs) (cwd : Path) (s : String) : Bool :=
  match stat fs cwd s with
  | some .dir => true
  | _ => false

def mkdir (fs : Fs) (cwd : Path) (s : String) : Except Errno Fs :=
  match resolve fs cwd s with
  | .missing par n _ => .ok (set fs (par ++ [n]) .dir)
  | .found _ _ => .error .exist
  | .err e => .error e

def lastRaw (s : String) : Option Name := ((comps s).filter (· ≠ "")).getLast?

def rmdir (fs : Fs) (cwd : Path) (s : String) : Except Errno Fs :=
  if lastRaw s = some "." then .error .inval
  else if lastRaw s = some ".." then .error .notempty
  else match resolve fs cwd s with
    | .found p .dir =>
      if children fs p ≠ [] then .error .notempty
      else if p = [] then .error .outside
      else .ok (erase fs p)
    | .found _ (.file _) => .error .notdir
    | .missing _ _ _ => .error .noent
    | .err e => .error e

def unlink (fs : Fs) (cwd : Path) (s : String) : Except Errno Fs :=
  match resolve fs cwd s with
  | .found p (.file _) => .ok (erase fs p)
  | .found _ .dir => .error .isdir
  | .missing _ _ _ => .error .noent
  | .err e => .error e

/-- `rename(2)` for a regular-file source (the only case `rename_file/2` lets through) -/
def rename (fs : Fs) (cwd : Path) (a b : String) : Except Errno Fs :=
  match resolve fs cwd a with
  | .found ps (.file bytes) =>
    match resolve fs cwd b with
    | .found pd (.file _) => if pd = ps then .ok fs else .ok (set (erase fs ps) pd (.file bytes))
    | .found _ .dir => .error .isdir
    | .missing par n slash =>
      if slash then .error .notdir else .ok (set (erase fs ps) (par ++ [n]) (.file bytes))
    | .err e => .error e
  | .found _ .dir => .error .isdir      -- not reachable from rename_file/2
  | .missing _ _ _ => .error .noent
  | .err e => .error e

/-- `std::fs::copy`: open the source, open the target with `O_WRONLY|O_CREAT|O_TRUNC`, copy.
`truncSelf = true` is the pinned behaviour (source = target is truncated before it is read);
`false` is the repaired behaviour (copying a file onto itself leaves it alone). -/
def copy (truncSelf : Bool) (fs : Fs) (cwd : Path) (a b : String) : Except Errno Fs :=
  match resolve fs cwd a with
  | .found ps (.file bytes) =>
    match resolve fs cwd b with
    | .found pd (.file _) =>
      if pd = ps then (if truncSelf then .ok (set fs pd (.file [])) else .ok fs)
      else .ok (set fs pd (.file bytes))
    | .found _ .dir => .error .isdir
    | .missing par n slash =>
      if slash then .error .isdir else .ok (set fs (par ++ [n]) (.file bytes))
    | .err e => .error e
  | .found _ .dir => .error .isdir
  | .missing _ _ _ => .error .noent
  | .err e => .error e

def readdir (fs : Fs) (cwd : Path) (s : String) : Option (List Name) :=
  match resolve fs cwd s with
  | .found p .dir => some (children fs p)
  | _ => none

def renderAbs (p : Path) : String := "/" ++ "/".intercalate p

def realpath (fs : Fs) (cwd : Path) (s : String) : Option String :=
  match resolve fs cwd s with
  | .found p _ => some (renderAbs p)
  | _ => none

/-! ## `std::path` components and `create_dir_all` -/

inductive Comp where
  | root | cur | parent | normal (n : Name)
  deriving DecidableEq, Repr

/-- `Path::components()`: repeated separators, a trailing separator and every `.` except a
leading one disappear -/
def rcomps (s : String) : List Comp :=
  let raw := comps s
  let body := (raw.filter (fun c => c ≠ "" ∧ c ≠ ".")).map
    (fun c => if c = ".." then Comp.parent else Comp.normal c)
  if s = "" then []
  else if isAbs s then .root :: body
  else if raw.head? = some "." then .cur :: body
  else body

def compStr : Comp → String
  | .root => ""
  | .cur => "."
  | .parent => ".."
  | .normal n => n

/-- the path text of a component prefix (what `Path::parent` / `ancestors` hand to `mkdir`) -/
def render : List Comp → String
  | .root :: r => "/" ++ "/".intercalate (r.map compStr)
  | l => "/".intercalate (l.map compStr)

/-- one level of `DirBuilder::create_dir_all`: `mkdir`; on `NotFound` create the parent (by
`mkParent`) and `mkdir` again; every other error is fine iff the path is a directory. The tree
comes back in every case: ancestors created before a failure stay. -/
def cdaAt (cwd : Path) (mkParent : Fs → Fs × Option Errno) (isRoot : Bool) (fs : Fs) (s : String) :
    Fs × Option Errno :=
  match mkdir fs cwd s with
  | .ok fs' => (fs', none)
  | .error .noent =>
    if isRoot then (fs, some .noent)
    else match mkParent fs with
      | (fs1, some e) => (fs1, some e)
      | (fs1, none) =>
        match mkdir fs1 cwd s with
        | .ok fs2 => (fs2, none)
        | .error e => if isDir fs1 cwd s then (fs1, none) else (fs1, some e)
  | .error e => if isDir fs cwd s then (fs, none) else (fs, some e)

/-- `create_dir_all` on a component list given last component first -/
def cda (cwd : Path) : List Comp → Fs → Fs × Option Errno
  | [], fs => (fs, none)
  | c :: par, fs => cdaAt cwd (cda cwd par) (c == .root) fs (render (c :: par).reverse)

/-- `std::fs::create_dir_all(s)`: the first `mkdir` sees the text as given -/
def createDirAll (fs : Fs) (cwd : Path) (s : String) : Fs × Option Errno :=
  match (rcomps s).reverse with
  | [] => (fs, none)
  | c :: par => cdaAt cwd (cda cwd par) (c == .root) fs s

/-! ## `library(files)` -/

/-- an element of a would-be list of characters -/
inductive Elem where
  | ch (c : Char) | var | bad (k : Nat)
  deriving DecidableEq, Repr

inductive Tail where
  | nil | var | bad
  deriving DecidableEq, Repr

/-- shape of a term passed where chars are expected: elements and the tail. A bare variable is
`⟨[], .var⟩`, an atom or number is `⟨[], .bad⟩`. -/
structure Chars where
  elems : List Elem
  tail : Tail
  deriving DecidableEq, Repr

inductive IntArg where
  | var | int (n : Nat) | bad
  deriving DecidableEq, Repr

/-- an output argument that `can_be(list, _)`: unbound, `[]`, `[_|_]`, a non-list, or chars -/
inductive ListArg where
  | var | nil | partialList | bad | str (s : String)
  deriving DecidableEq, Repr

inductive SegsArg where
  | var | list (l : List Chars) (tail : Tail)
  deriving Repr

inductive Out where
  | yes | no
  | size (n : Nat) | names (l : List Name) | str (s : String) | segs (l : List String)
  | eInst | eTypeList | eTypeChar (k : Nat) | eTypeInt
  | eNoFile (s : String) | eNoDir (s : String)
  | outside
  deriving DecidableEq, Repr

def firstBad : List Elem → Option Nat
  | [] => none
  | .bad k :: _ => some k
  | _ :: r => firstBad r

def charsOf : List Elem → List Char
  | [] => []
  | .ch c :: r => c :: charsOf r
  | _ :: r => charsOf r

/-- `must_be(chars, A)`: `can_be(chars, A)` first (type errors), then `must_be(list, A)` and
`all_characters/1` (instantiation errors) -/
def mustBeChars (a : Chars) : Except Out String :=
  if a.tail = .bad then .error .eTypeList
  else match firstBad a.elems with
    | some k => .error (.eTypeChar k)
    | none =>
      if a.tail = .var then .error .eInst
      else if a.elems.any (· == .var) then .error .eInst
      else .ok (String.ofList (charsOf a.elems))

inductive Op where
  | fileExists (a : Chars)
  | dirExists (a : Chars)
  | fileSize (a : Chars) (s : IntArg)
  | dirFiles (a : Chars) (l : ListArg)
  | mkdir (a : Chars)
  | mkdirPath (a : Chars)
  | deleteFile (a : Chars)
  | deleteDir (a : Chars)
  | rename (a b : Chars)
  | copy (a b : Chars)
  | canonical (a : Chars) (c : ListArg)
  | segments (p : Chars) (s : SegsArg)
  | envWrite (p : Path) (bytes : List UInt8)   -- the environment (not Prolog) writes a file
  deriving Repr

structure Cfg where
  cwd : Path
  truncSelf : Bool := false

def escapes (fs : Fs) (cwd : Path) (s : String) : Bool := resolve fs cwd s == .err .outside

def ofExcept (fs : Fs) : Except Errno Fs → Fs × Out
  | .ok fs' => (fs', .yes)
  | .error .outside => (fs, .outside)
  | .error _ => (fs, .no)

def byteLen (e : Entry) : Nat :=
  match e with
  | .file b => b.length
  | .dir => 0

/-- `maplist(must_be(chars), Segments)`: the first error counts -/
def mustBeCharsAll : List Chars → Except Out (List String)
  | [] => .ok []
  | a :: r =>
    match mustBeChars a with
    | .error e => .error e
    | .ok s => match mustBeCharsAll r with
      | .error e => .error e
      | .ok ss => .ok (s :: ss)

def isVarArg (a : Chars) : Bool := a.elems.isEmpty && a.tail == .var

def pathSegments (p : Chars) (s : SegsArg) : Out :=
  if isVarArg p then
    match s with
    | .var => .eInst
    | .list l tl =>
      if tl = .bad then .eTypeList
      else if tl = .var then .eInst
      else match mustBeCharsAll l with
        | .error e => e
        | .ok ss => .str (String.ofList (joinC (ss.map String.toList)))
  else
    match mustBeChars p with
    | .error e => e
    | .ok ps =>
      let sg := (splitC ps.toList).map String.ofList
      match s with
      | .var => .segs sg
      | .list l tl =>
        if tl = .nil then
          match mustBeCharsAll l with
          | .ok ss => if ss = sg then .segs sg else .no
          | .error _ => .outside      -- unification with a non-ground list: not modelled
        else .outside

/-- one predicate call: new tree and the answer -/
def step (cfg : Cfg) (fs : Fs) : Op → Fs × Out
  | .fileExists a =>
    match mustBeChars a with
    | .error e => (fs, e)
    | .ok s => if escapes fs cfg.cwd s then (fs, .outside)
               else (fs, if isFile fs cfg.cwd s then .yes else .no)
  | .dirExists a =>
    match mustBeChars a with
    | .error e => (fs, e)
    | .ok s => if escapes fs cfg.cwd s then (fs, .outside)
               else (fs, if isDir fs cfg.cwd s then .yes else .no)
  | .fileSize a sz =>
    match mustBeChars a with
    | .error e => (fs, e)
    | .ok s =>
      if escapes fs cfg.cwd s then (fs, .outside)
      else match stat fs cfg.cwd s with
        | some (.file b) =>
          match sz with
          | .bad => (fs, .eTypeInt)
          | .var => (fs, .size b.length)
          | .int n => (fs, if n = b.length then .size n else .no)
        | _ => (fs, .eNoFile s)
  | .dirFiles a l =>
    match mustBeChars a with
    | .error e => (fs, e)
    | .ok s =>
      if l = .bad then (fs, .eTypeList)
      else if escapes fs cfg.cwd s then (fs, .outside)
      else match readdir fs cfg.cwd s with
        | none => (fs, .no)
        | some ns =>
          match l with
          | .var => (fs, .names ns)
          | .nil => (fs, if ns = [] then .names ns else .no)
          | .partialList => (fs, if ns = [] then .no else .names ns)
          | _ => (fs, .outside)
  | .mkdir a =>
    match mustBeChars a with
    | .error e => (fs, e)
    | .ok s => ofExcept fs (mkdir fs cfg.cwd s)
  | .mkdirPath a =>
    match mustBeChars a with
    | .error e => (fs, e)
    | .ok s =>
      if escapes fs cfg.cwd s then (fs, .outside)
      else match createDirAll fs cfg.cwd s with
        | (fs', none) => (fs', .yes)
        | (fs', some .outside) => (fs', .outside)
        | (fs', some _) => (fs', .no)
  | .deleteFile a =>
    match mustBeChars a with
    | .error e => (fs, e)
    | .ok s =>
      if escapes fs cfg.cwd s then (fs, .outside)
      else if isFile fs cfg.cwd s then ofExcept fs (unlink fs cfg.cwd s) else (fs, .eNoFile s)
  | .deleteDir a =>
    match mustBeChars a with
    | .error e => (fs, e)
    | .ok s =>
      if escapes fs cfg.cwd s then (fs, .outside)
      else if isDir fs cfg.cwd s then ofExcept fs (rmdir fs cfg.cwd s) else (fs, .eNoDir s)
  | .rename a b =>
    match mustBeChars a with
    | .error e => (fs, e)
    | .ok s =>
      if escapes fs cfg.cwd s then (fs, .outside)
      else if isFile fs cfg.cwd s then
        match mustBeChars b with
        | .error e => (fs, e)
        | .ok t => ofExcept fs (rename fs cfg.cwd s t)
      else (fs, .eNoFile s)
  | .copy a b =>
    match mustBeChars a with
    | .error e => (fs, e)
    | .ok s =>
      if escapes fs cfg.cwd s then (fs, .outside)
      else if isFile fs cfg.cwd s then
        match mustBeChars b with
        | .error e => (fs, e)
        | .ok t => ofExcept fs (copy cfg.truncSelf fs cfg.cwd s t)
      else (fs, .eNoFile s)
  | .canonical a c =>
    match mustBeChars a with
    | .error e => (fs, e)
    | .ok s =>
      if c = .bad then (fs, .eTypeList)
      else if escapes fs cfg.cwd s then (fs, .outside)
      else match realpath fs cfg.cwd s with
        | none => (fs, .no)
        | some r =>
          match c with
          | .var => (fs, .str r)
          | .partialList => (fs, .str r)      -- `[_|_]` unifies with every non-empty string
          | .nil => (fs, .no)
          | .str x => (fs, if x = r then .str r else .no)
          | .bad => (fs, .eTypeList)
  | .segments p s => (fs, pathSegments p s)
  | .envWrite p bytes =>
    if p ≠ [] ∧ get fs p.dropLast = some .dir ∧ get fs p ≠ some .dir then (set fs p (.file bytes), .yes)
    else (fs, .outside)

/-- a whole script: the answers and the tree after every step -/
def run (cfg : Cfg) : Fs → List Op → List (Fs × Out)
  | _, [] => []
  | fs, op :: r => let x := step cfg fs op; x :: run cfg x.1 r

/-- the tree after a script -/
def exec (cfg : Cfg) : Fs → List Op → Fs
  | fs, [] => fs
  | fs, op :: r => exec cfg (step cfg fs op).1 r

end Scryer.FsTree
