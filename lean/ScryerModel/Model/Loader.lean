/-
C35 — the reload protocol of the loader (src/loader.pl, src/machine/loader.rs, load_state.rs,
compile.rs), at the granularity of predicates, clause ownership and declaration tables.

What is mirrored
* the term queue of loader.pl (`compile_clause` / `'$is_consistent_with_term_queue'` /
  `'$flush_term_queue'`): consecutive clauses of one predicate form a group, every directive
  flushes the queue (`events`);
* `Loader::compile_and_submit` (compile.rs): the decision between retracting the source's own
  clauses (`must_retract_local_clauses`), compiling incrementally (`compile_incrementally`,
  evaluated BEFORE the retraction, as in the code) and overwriting the predicate (`stepK`);
* `add_extensible_predicate_declaration` / `add_discontiguous_predicate` (loader.rs): a
  declaration creates the global skeleton, `discontiguous` first retracts the source's clauses;
* `add_in_situ_filename_module` / `reset_in_situ_module` / `remove_replaced_in_situ_module`
  (loader.rs, load_state.rs): when the source is a real file, everything the file owned is
  wiped before the text is processed (`wipeK`, erasure of the file's operators);
* `op/3` and `set_prolog_flag/2` directives as assignments to tables.

What is abstracted: clauses are opaque payloads (`Cl.val`); code, indices and the WAM are not
modelled; local skeletons are represented by the owner tag of each clause (in every reachable
state the local skeleton of (source, key) lists exactly the tracked clauses the source added).
The repaired behaviour is modelled (see notes/findings/C35-1.md); `Pinned` below models the
pinned behaviour of the one place where they differ.
-/
namespace Scryer.Loader

abbrev Key := Nat
/-- source id; `0` is the pseudo source `user` (non-file loads and assert/1). -/
abbrev Src := Nat

structure Cl where
  own : Src
  val : Nat
deriving DecidableEq, Repr

inductive Fl | dyn | disc | multi
deriving DecidableEq, Repr

/-- one predicate: global skeleton flags, code index status and the callable clauses. -/
structure Pred where
  /-- a global skeleton exists (the predicate was declared dynamic/discontiguous/multifile). -/
  ext : Bool := false
  dyn : Bool := false
  disc : Bool := false
  multi : Bool := false
  /-- the code index is not `undefined`: a call fails instead of raising existence_error. -/
  defined : Bool := false
  /-- the callable clauses are recorded in the global skeleton. -/
  tracked : Bool := false
  cls : List Cl := []
deriving DecidableEq, Repr

inductive KEv
  | decl (f : Fl)
  | group (vs : List Nat)
deriving DecidableEq, Repr

def ownCls (src : Src) (vs : List Nat) : List Cl := vs.map fun v => ⟨src, v⟩

def foreign (src : Src) (cs : List Cl) : List Cl := cs.filter fun c => c.own != src

def Pred.setFl (p : Pred) : Fl → Pred
  | .dyn => { p with dyn := true }
  | .disc => { p with disc := true }
  | .multi => { p with multi := true }

/-- one event of the load of source `src` on one predicate. -/
def stepK (src : Src) (p : Pred) : KEv → Pred
  | .decl f =>
    -- add_discontiguous_predicate: retract_local_clauses first
    let p1 := if f == Fl.disc && p.tracked then { p with cls := foreign src p.cls } else p
    -- global skeleton created (empty) or flag set; fail_on_undefined
    { p1.setFl f with ext := true, defined := true }
  | .group vs =>
    -- predicate_info is read before the retraction
    let inc := p.tracked && !p.cls.isEmpty && (p.disc || p.multi)
    -- must_retract_local_clauses: local skeleton has clauses, not discontiguous
    let cls1 := if p.tracked && p.cls.any (fun c => c.own == src) && !p.disc
                then foreign src p.cls else p.cls
    if inc then { p with cls := cls1 ++ ownCls src vs }
    else { p with cls := ownCls src vs, tracked := p.ext, defined := true }

/-- start of the load of a real file: what the in-situ filename module recorded is removed.
    `inS`: the file's module code_dir contains the key (the file defined it before). -/
def wipeK (src : Src) (inS : Bool) (p : Pred) : Pred :=
  if p.ext then
    if p.tracked then { p with cls := foreign src p.cls } else p
  else if inS then { p with cls := [], defined := false, tracked := false }
  else p

/-- load of one source, seen from one predicate. `fm`: the source path is a real file. -/
def loadKey (fm : Bool) (src : Src) (inS : Bool) (evs : List KEv) (p : Pred) : Pred :=
  evs.foldl (stepK src) (if fm then wipeK src inS p else p)

/-! ## Source text -/

inductive Item
  | clause (k : Key) (v : Nat)
  | decl (k : Key) (f : Fl)
  /-- `:- op(P,T,N)`: `o` identifies (N, fixity class), `v = none` for priority 0. -/
  | op (o : Nat) (v : Option Nat)
  | flag (f : Nat) (v : Nat)
  /-- any other directive or expansion clause without modelled effect (it flushes the queue):
      `:- initialization(true)`, a `term_expansion/2` clause, … -/
  | noise
deriving DecidableEq, Repr

def flushQ : Option (Key × List Nat) → List (Key × KEv)
  | none => []
  | some (k, vs) => [(k, .group vs)]

/-- the term queue: segmentation of the text into per-predicate events. -/
def events : List Item → Option (Key × List Nat) → List (Key × KEv)
  | [], q => flushQ q
  | .clause k v :: r, none => events r (some (k, [v]))
  | .clause k v :: r, some (k', vs) =>
    if k = k' then events r (some (k, vs ++ [v]))
    else (k', .group vs) :: events r (some (k, [v]))
  -- compile_dispatch runs the declaration first, `'$flush_term_queue'` afterwards
  | .decl k f :: r, q => (k, .decl f) :: (flushQ q ++ events r none)
  | _ :: r, q => flushQ q ++ events r none

def evsOf (k : Key) (evs : List (Key × KEv)) : List KEv :=
  evs.filterMap fun e => if e.1 = k then some e.2 else none

def isGroup : KEv → Bool
  | .group _ => true
  | _ => false

def hasGroup (k : Key) (evs : List (Key × KEv)) : Bool := (evsOf k evs).any isGroup

/-! ## Assignment tables (operators, flags) -/

abbrev Tbl := Nat → Option Nat

def upd (t : Tbl) (a : Nat × Option Nat) : Tbl := fun o => if o = a.1 then a.2 else t o

def applyAssigns (as : List (Nat × Option Nat)) (t : Tbl) : Tbl := as.foldl upd t

def lastAssign (o : Nat) : List (Nat × Option Nat) → Option (Option Nat)
  | [] => none
  | a :: as =>
    match lastAssign o as with
    | some v => some v
    | none => if o = a.1 then some a.2 else none

def opAssigns : List Item → List (Nat × Option Nat)
  | [] => []
  | .op o v :: r => (o, v) :: opAssigns r
  | _ :: r => opAssigns r

def flagAssigns : List Item → List (Nat × Option Nat)
  | [] => []
  | .flag f v :: r => (f, some v) :: flagAssigns r
  | _ :: r => flagAssigns r

def mentions (o : Nat) (as : List (Nat × Option Nat)) : Bool := as.any fun a => a.1 == o

/-! ## Whole state -/

structure State where
  preds : Key → Pred
  /-- keys in the code_dir of the in-situ module of a file source. -/
  sdef : Src → Key → Bool
  ops : Tbl
  /-- operators recorded in the op_dir of the in-situ module of a file source. -/
  opOwn : Src → Nat → Bool
  flags : Tbl

def State.init : State :=
  { preds := fun _ => {}, sdef := fun _ _ => false, ops := fun _ => none,
    opOwn := fun _ _ => false, flags := fun _ => none }

/-- consult / load of the text `items` as source `src`. -/
def load (fm : Bool) (src : Src) (items : List Item) (s : State) : State :=
  let evs := events items none
  { preds := fun k => loadKey fm src (s.sdef src k) (evsOf k evs) (s.preds k)
    sdef := fun a k => if fm && a == src && hasGroup k evs then true else s.sdef a k
    ops := applyAssigns (opAssigns items)
             (fun o => if fm && s.opOwn src o then none else s.ops o)
    opOwn := fun a o => if fm && a == src then mentions o (opAssigns items) else s.opOwn a o
    flags := applyAssigns (flagAssigns items) s.flags }

/-- `assertz/1` (run-time, source 0) on a dynamic predicate: incremental append. -/
def assertz (k : Key) (v : Nat) (s : State) : State :=
  { s with preds := fun k' =>
      if k' = k then
        let p := s.preds k
        { p with ext := true, dyn := true, defined := true, tracked := true,
                 cls := (if p.tracked then p.cls else []) ++ [⟨0, v⟩] }
      else s.preds k' }

def loadN (fm : Bool) (src : Src) (items : List Item) : Nat → State → State
  | 0, s => s
  | n + 1, s => load fm src items (loadN fm src items n s)

/-- answers of the query `k(X)`: `none` = existence_error. -/
def answers (s : State) (k : Key) : Option (List Nat) :=
  let p := s.preds k
  if p.defined then some (p.cls.map (·.val)) else none

/-- the model's size measure of the loader tables restricted to finite key sets. -/
def size (s : State) (keys ops : List Nat) : Nat :=
  (keys.map fun k => (s.preds k).cls.length).sum + (ops.filter fun o => (s.ops o).isSome).length

/-! ## Closed form for texts whose declarations precede the clauses -/

def declsOf : List KEv → List Fl
  | [] => []
  | .decl f :: r => f :: declsOf r
  | _ :: r => declsOf r

def groupsOf : List KEv → List (List Nat)
  | [] => []
  | .group vs :: r => vs :: groupsOf r
  | _ :: r => groupsOf r

/-- the declarations of the predicate precede its clauses. -/
def canonK (evs : List KEv) : Prop :=
  evs = (declsOf evs).map KEv.decl ++ (groupsOf evs).map KEv.group

/-- state of the predicate after the groups `gs` (closed form). -/
def closed (src : Src) (p : Pred) (gs : List (List Nat)) : Pred :=
  match gs.getLast? with
  | none => p
  | some last =>
    let keep :=
      if p.tracked then
        (if p.disc then p.cls else if p.multi then foreign src p.cls else [])
      else []
    let new := if p.disc then ownCls src gs.flatten else ownCls src last
    { p with cls := keep ++ new, tracked := p.ext, defined := true }

/-- the closed form of `loadKey`. -/
def specKey (fm : Bool) (src : Src) (inS : Bool) (evs : List KEv) (p : Pred) : Pred :=
  closed src ((declsOf evs).foldl (fun q f => stepK src q (.decl f))
    (if fm then wipeK src inS p else p)) (groupsOf evs)

/-- well-formed predicate records: flags and tracking imply a global skeleton. -/
def Pred.wf (p : Pred) : Prop :=
  (p.tracked = true → p.ext = true) ∧ (p.disc = true → p.ext = true) ∧
  (p.multi = true → p.ext = true)

/-! ## The pinned behaviour (finding C35-1)

`remove_replaced_in_situ_module` also resets the code index of every non-multifile predicate of
the file's local skeletons to (dynamic_)undefined. A later overwrite (`compile`) installs a new
index; an incremental compile does not, so the predicate stays unreachable. -/

structure PredP where
  p : Pred
  lost : Bool := false
deriving DecidableEq, Repr

def stepKPinned (src : Src) (q : PredP) (e : KEv) : PredP :=
  let p' := stepK src q.p e
  match e with
  | .decl _ => { p := p', lost := q.lost }
  | .group _ =>
    let inc := q.p.tracked && !q.p.cls.isEmpty && (q.p.disc || q.p.multi)
    { p := p', lost := q.lost && inc }

def loadKeyPinned (src : Src) (inS : Bool) (evs : List KEv) (q : PredP) : PredP :=
  let hadLocal := q.p.tracked && q.p.cls.any (fun c => c.own == src)
  evs.foldl (stepKPinned src)
    { p := wipeK src inS q.p, lost := q.lost || (hadLocal && !q.p.multi) }

def answersP (q : PredP) : Option (List Nat) :=
  if q.lost then some [] else if q.p.defined then some (q.p.cls.map (·.val)) else none

end Scryer.Loader
