/-!
# Integer relation builtins: `between/3`, `succ/2`, `numlist/3`, `length/2` (C49)

Clause-by-clause transcription of

* `src/lib/error.pl`   — `must_be(integer,_)`, `can_be(integer,_)`, `can_be(not_less_than_zero,_)`
* `src/lib/between.pl` — `between/3`, `between_/3`, `enumerate_ints/2`, `gen_int/1`, `diag_nats/2,4`,
  `diag_nats_signs/4`, `diag_ints/2`, `gen_ints/2`, `numlist/3`
* `src/lib/iso_ext.pl` — `succ/2`
* `src/lib/lists.pl`   — `length/2`, `length_rundown/2`, `length_addendum/3`
* `src/machine/system_calls.rs` — `skip_max_list` (the handling of the *max* argument) and
  `det_length_rundown`

A Prolog goal is modelled by the list of its first `n` answers (a *prefix function*): every
enumerator takes the number `n` of answers asked for (the harness' `max_answers`), and a result
with fewer than `n` answers means that the goal failed finitely after them. Answers are the
*tuples of the relation* (all arguments after the answer substitution), not the bindings.

What is abstracted: list elements (only the number `k` of list cells and the kind of the tail
matter to `length/2`), ill-typed terms (`bad k`: the k-th ill-typed term of the case: an atom
such as `inf`, a float, a compound), attributed variables and cyclic lists (absent).
The second half of the file is the *specification*: the mathematical relations with the
documented error table, in closed form. `Props/C49.lean` relates the two.
-/
namespace Scryer.IntRel

/-- An argument: an unbound variable (with an identity), an integer, or an ill-typed term. -/
inductive Arg where
  | var (v : Nat)
  | int (i : Int)
  | bad (k : Nat)
  deriving DecidableEq, Repr, Inhabited

/-- Formal of a thrown `error(Formal, _)`. -/
inductive Err where
  | inst                       -- instantiation_error
  | typeInt (culprit : Arg)    -- type_error(integer, Culprit)
  | domNlz (i : Int)           -- domain_error(not_less_than_zero, I)
  | resFinite                  -- resource_error(finite_memory)   (thrown by lists.pl)
  | resMemory                  -- resource_error(memory)          (thrown by the allocator)
  deriving DecidableEq, Repr

/-- Result of running a goal asking for `n` answers.
`ans as`: the first `n` answers (when `as.length < n` the goal then failed finitely);
`err e`: the goal threw before any answer (none of the modelled predicates throws after an answer);
`hang as`: answers found so far; the goal was still searching an unending candidate stream when
the model's scan fuel ran out (only `numlist/3` with an unbound bound). -/
inductive Res (α : Type) where
  | err (e : Err)
  | ans (as : List α)
  | hang (as : List α)
  deriving DecidableEq, Repr

/-- at most `n` answers of a goal whose complete answer list is `as`. -/
def ansN {α : Type} (n : Nat) (as : List α) : Res α := .ans (as.take n)

/-! ## error.pl -/

/-- `must_be(integer, T)`: `check_(integer, integer, T)`. -/
def mustBeInt : Arg → Except Err Int
  | .var _ => .error .inst
  | .int i => .ok i
  | .bad k => .error (.typeInt (.bad k))

/-- `can_be(integer, T)`; `none` = passes. -/
def canBeInt : Arg → Option Err
  | .var _ => none
  | .int _ => none
  | .bad k => some (.typeInt (.bad k))

/-- `can_be(not_less_than_zero, T)` via `can_(not_less_than_zero, N)`. -/
def canBeNlz : Arg → Option Err
  | .var _ => none
  | .int i => if i ≥ 0 then none else some (.domNlz i)
  | .bad k => some (.typeInt (.bad k))

/-! ## between.pl: between/3 -/

/-- All answers of `between_(L, U, X)` (X unbound), run to exhaustion.
```
between_(Lower, Upper, Lower1) :- Lower < Upper, !, ( Lower1 = Lower ; Lower0 is Lower+1, between_(Lower0, Upper, Lower1) ).
between_(Lower, Lower, Lower).
``` -/
def betweenAll (l u : Int) : List Int :=
  if l < u then l :: betweenAll (l + 1) u
  else if l = u then [l] else []
termination_by (u - l).toNat
decreasing_by omega

/-- The first `n` answers of `between_(L, U, X)` (same clauses, stopped after `n` answers). -/
def betweenTake : Nat → Int → Int → List Int
  | 0, _, _ => []
  | n + 1, l, u =>
    if l < u then l :: betweenTake n (l + 1) u
    else if l = u then [l] else []

/-- `between(Lower, Upper, X)`; the answer is the value of `X`. -/
def between (n : Nat) (L U X : Arg) : Res Int :=
  match mustBeInt L with
  | .error e => .err e
  | .ok l =>
  match mustBeInt U with
  | .error e => .err e
  | .ok u =>
  match canBeInt X with
  | some e => .err e
  | none =>
  match X with
  | .int x =>                                   -- nonvar(X) -> Lower =< X, X =< Upper
    if l ≤ x then (if x ≤ u then ansN n [x] else .ans []) else .ans []
  | _ =>                                        -- Lower =< Upper, between_(Lower, Upper, X)
    if l ≤ u then .ans (betweenTake n l u) else .ans []

/-! ## iso_ext.pl: succ/2 -/

/-- `succ(I, S)`; the answer is the pair `(I, S)`. -/
def succ (n : Nat) (I S : Arg) : Res (Int × Int) :=
  match canBeNlz I with
  | some e => .err e
  | none =>
  match canBeNlz S with
  | some e => .err e
  | none =>
  match S, I with
  | .int s, I =>                                -- integer(S) -> S > 0, I is S-1
    if s > 0 then
      match I with
      | .var _ => ansN n [(s - 1, s)]
      | .int i => if i = s - 1 then ansN n [(i, s)] else .ans []
      | .bad _ => .ans []
    else .ans []
  | .var _, .int i => ansN n [(i, i + 1)]       -- integer(I) -> S is I+1
  | .bad _, .int _ => .ans []
  | _, _ => .err .inst                          -- instantiation_error(succ/2)

/-! ## between.pl: numlist/3 -/

/-- The `List` argument of `numlist/3`: unbound, or a proper list of integers. -/
inductive LArg where
  | var
  | ints (xs : List Int)
  deriving DecidableEq, Repr

/-- unification of the `findall/3` result with the `List` argument. -/
def unifyInts (ys : List Int) : LArg → Bool
  | .var => true
  | .ints xs => decide (xs = ys)

abbrev Tuple := Int × Int × List Int

/-- `L =< U, findall(X, between(L, U, X), List)` for integer `L`, `U`
(the last goal of `gen_ints/2` and the second goal of `numlist/3`). -/
def numlistBody (l u : Int) (Xs : LArg) : List Tuple :=
  if l ≤ u then
    let ys := betweenAll l u
    if unifyInts ys Xs then [(l, u, ys)] else []
  else []

/-- Answers of `enumerate_ints(I0, N)` produced by the first `d` levels of its recursion
(at least `d` of them; the stream never ends).
```
enumerate_ints(I, I).
enumerate_ints(I0, N) :- I0 > 0, N is -I0.
enumerate_ints(I0, N) :- I1 is I0 + 1, enumerate_ints(I1, N).
``` -/
def enumerateInts : Nat → Int → List Int
  | 0, _ => []
  | d + 1, i0 => i0 :: ((if i0 > 0 then [-i0] else []) ++ enumerateInts d (i0 + 1))

/-- clauses 2 and 3 of `diag_nats/4`: the state after `(M, N)`. -/
def diagNatsNext : Nat × Nat → Nat × Nat
  | (m, 0) => (0, m + 1)
  | (m, n + 1) => (m + 1, n)

/-- answers of `diag_nats(M, N, M1, N1)` produced by the first `d` levels. -/
def diagNats4 : Nat → Nat × Nat → List (Nat × Nat)
  | 0, _ => []
  | d + 1, s => s :: diagNats4 d (diagNatsNext s)

/-- `diag_nats/2`: `(0,0)`, then `diag_nats(0, 1, M, N)`. -/
def diagNats2 (d : Nat) : List (Nat × Nat) := (0, 0) :: diagNats4 d (0, 1)

/-- `diag_nats_signs/4`. -/
def diagNatsSigns : Nat × Nat → List (Int × Int)
  | (0, 0) => [(0, 0)]
  | (0, n + 1) => [(0, ((n + 1 : Nat) : Int)), (0, -((n + 1 : Nat) : Int))]
  | (m + 1, 0) => [(((m + 1 : Nat) : Int), 0), (-((m + 1 : Nat) : Int), 0)]
  | (m + 1, n + 1) =>
    let a : Int := ((m + 1 : Nat) : Int)
    let b : Int := ((n + 1 : Nat) : Int)
    [(a, b), (a, -b), (-a, b), (-a, -b)]

/-- `diag_ints/2`. -/
def diagInts (d : Nat) : List (Int × Int) := (diagNats2 d).flatMap diagNatsSigns

/-- a search through an unending candidate stream of which `found` are the answers among the
candidates scanned so far. -/
def search {α : Type} (n : Nat) (found : List α) : Res α :=
  if found.length ≥ n then .ans (found.take n) else .hang found

/-- The answers of `gen_ints(L, U), findall(X, between(L, U, X), List)` found among the candidates that
the first `fuel` recursion levels of the candidate generator (`gen_int/1`, `diag_ints/2`) produce. -/
def numlistFound (fuel : Nat) (L U : Arg) (Xs : LArg) : List Tuple :=
  match L, U with
  | .int l, .int u => numlistBody l u Xs                                       -- integer(L), integer(U), !
  | .int l, _ => (enumerateInts fuel 0).flatMap fun u => numlistBody l u Xs    -- gen_int(U)
  | _, .int u => (enumerateInts fuel 0).flatMap fun l => numlistBody l u Xs    -- gen_int(L)
  | _, _ => (diagInts fuel).flatMap fun p => numlistBody p.1 p.2 Xs            -- diag_ints(L, U)

/-- `numlist(Lower, Upper, List) :- gen_ints(Lower, Upper), findall(X, between(Lower, Upper, X), List).`
`fuel` bounds the number of recursion levels of the candidate generators that are scanned: with both
bounds given the goal is determinate; otherwise the candidate stream never ends, so the goal either
delivers its `n` answers or is still searching (`hang`). -/
def numlist3 (n fuel : Nat) (L U : Arg) (Xs : LArg) : Res Tuple :=
  match canBeInt L with
  | some e => .err e
  | none =>
  match canBeInt U with
  | some e => .err e
  | none =>
  match L, U with
  | .int _, .int _ => ansN n (numlistFound fuel L U Xs)
  | _, _ => search n (numlistFound fuel L U Xs)

/-! ## lists.pl: length/2 -/

/-- what remains of a list argument after all its list cells -/
inductive Tail where
  | nil                -- `[]`
  | var (v : Nat)      -- an unbound variable: partial list
  | nonlist            -- any other term (`foo`, `[a|b]`)
  deriving DecidableEq, Repr

/-- a list argument: `k` list cells followed by `tail`. -/
structure PList where
  k : Nat
  tail : Tail
  deriving DecidableEq, Repr

/-- An answer of `length(Xs, N)`: the value of `N`, and the (fresh) variables that the tail
variable of a partial list was bound to a list of (`[]` when `Xs` is proper). -/
structure LenAns where
  n : Int
  ext : List Nat
  deriving DecidableEq, Repr

def fitsI64 (i : Int) : Bool := decide (-(2 ^ 63) ≤ i) && decide (i < 2 ^ 63)

/-- `'$skip_max_list'(M, N, Xs0, Xs)` (`skip_max_list` in system_calls.rs) on an acyclic list:
`none` = failure, `some (M, Xs)` otherwise.
* `N` unbound: `max_old = -1`, no limit;
* `N` an integer that fits `i64`: limit `N` if `N ≥ 0`, failure if negative;
* `N` an integer that does not fit `i64`: `max_steps_n = None`, `is_integer()` holds, so
  `max_old` stays `-1` — no limit, *whatever the sign* (`pinned = true`: the code as pinned).
  With `pinned = false` the test is `is_integer() && !is_negative()` (the fix proposed in
  notes/findings/C49-1.md): a negative bignum fails like every other negative integer;
* anything else: failure. -/
def skipMaxList (pinned : Bool) (N : Arg) (xs0 : PList) : Option (Nat × PList) :=
  match N with
  | .var _ => some (xs0.k, ⟨0, xs0.tail⟩)
  | .int i =>
    if fitsI64 i then
      if i ≥ 0 then
        let s := min i.toNat xs0.k
        some (s, ⟨xs0.k - s, xs0.tail⟩)
      else none
    else if pinned || decide (i ≥ 0) then some (xs0.k, ⟨0, xs0.tail⟩)
    else none
  | .bad _ => none

/-- `k` fresh variables starting at `fresh`. -/
def freshVars (fresh k : Nat) : List Nat := (List.range k).map (fresh + ·)

/-- `length_rundown(Xs, R)` with `Xs` an unbound (unattributed) variable; `N` is reported as `nval`.
`R = 0`: `Xs = []`. Otherwise `'$det_length_rundown'(Xs, R)`: `R` is converted to `usize` and a list of
`R` fresh variables is allocated — a resource error when that is impossible (`R` negative or beyond
the memory `cap`). -/
def lengthRundown (cap n fresh : Nat) (nval r : Int) : Res LenAns :=
  if r = 0 then ansN n [⟨nval, []⟩]
  else if r < 0 then .err .resMemory
  else if r.toNat ≤ cap then ansN n [⟨nval, freshVars fresh r.toNat⟩]
  else .err .resMemory

/-- first `n` answers of `length_addendum(Xs, N, M)` with `Xs` unbound; `acc` are the fresh variables
created so far, `fresh` the next unused variable.
```
length_addendum([], N, N).
length_addendum([_|Xs], N, M) :- M1 is M + 1, length_addendum(Xs, N, M1).
``` -/
def lengthAddendum : Nat → Nat → List Nat → Int → List LenAns
  | 0, _, _, _ => []
  | n + 1, fresh, acc, m => ⟨m, acc⟩ :: lengthAddendum n (fresh + 1) (acc ++ [fresh]) (m + 1)

/-- `length(Xs0, N)`. `cap`: the longest list of fresh variables the heap can hold;
`fresh`: the first variable not occurring in the query; `pinned`: see `skipMaxList`. -/
def length (pinned : Bool) (cap n fresh : Nat) (xs0 : PList) (N : Arg) : Res LenAns :=
  match skipMaxList pinned N xs0 with
  | some (m, xs) =>                                  -- first clause, after the cut
    if xs = ⟨0, .nil⟩ then                           -- Xs == [] -> N = M
      match N with
      | .var _ => ansN n [⟨m, []⟩]
      | .int i => if i = m then ansN n [⟨i, []⟩] else .ans []
      | .bad _ => .ans []
    else
      match xs.k, xs.tail with
      | 0, .var t =>                                 -- Xs is unbound
        match N with
        | .int i => lengthRundown cap n fresh i (i - m)             -- nonvar(N) -> R is N-M, length_rundown(Xs, R)
        | .var v =>
          if v = t then .err .resFinite                           -- N == Xs -> resource_error(finite_memory)
          else .ans (lengthAddendum n fresh [] m)                 -- length_addendum(Xs, N, M)
        | .bad _ => .err (.typeInt N)                             -- `R is N-M` (unreachable: skip fails first)
      | _, _ =>                                      -- nonvar(Xs) -> var(N), Xs = [_|_], resource_error(..)
        match N with
        | .var _ => if xs.k > 0 then .err .resFinite else .ans []  -- only a cyclic list passes `Xs = [_|_]`
        | _ => .ans []
  | none =>
    match N with
    | .int i => .err (.domNlz i)                     -- second clause
    | _ => .err (.typeInt N)                         -- third clause

/-! ## Specification: the relations in closed form, with the documented errors -/

/-- the first `min n (u+1-l)` elements of `[l, l+1, …, u]`. -/
def rangeTake (n : Nat) (l u : Int) : List Int :=
  (List.range (min n (u + 1 - l).toNat)).map (fun (i : Nat) => l + (i : Int))

/-- `[l, l+1, …, u]`. -/
def rangeIncl (l u : Int) : List Int :=
  (List.range (u + 1 - l).toNat).map (fun (i : Nat) => l + (i : Int))

/-- the first ill-typed argument in order Lower, Upper, X decides the error -/
def specBetween (n : Nat) (L U X : Arg) : Res Int :=
  match L, U, X with
  | .var _, _, _ => .err .inst
  | .bad k, _, _ => .err (.typeInt (.bad k))
  | .int _, .var _, _ => .err .inst
  | .int _, .bad k, _ => .err (.typeInt (.bad k))
  | .int _, .int _, .bad k => .err (.typeInt (.bad k))
  | .int l, .int u, .int x => if l ≤ x ∧ x ≤ u then ansN n [x] else .ans []
  | .int l, .int u, .var _ => .ans (rangeTake n l u)

/-- error of one argument of `succ/2` -/
def specNlzErr : Arg → Option Err
  | .var _ => none
  | .int i => if i < 0 then some (.domNlz i) else none
  | .bad k => some (.typeInt (.bad k))

def specSucc (n : Nat) (I S : Arg) : Res (Int × Int) :=
  match specNlzErr I, specNlzErr S with
  | some e, _ => .err e
  | none, some e => .err e
  | none, none =>
    match I, S with
    | .int i, .int s => if s = i + 1 then ansN n [(i, s)] else .ans []
    | .int i, _ => ansN n [(i, i + 1)]
    | _, .int s => if s ≥ 1 then ansN n [(s - 1, s)] else .ans []
    | _, _ => .err .inst

/-- the unique `(l, u)` with `xs = [l..u]`, if any -/
def boundsOf (xs : List Int) : Option (Int × Int) :=
  match xs with
  | [] => none
  | x :: _ =>
    let u := x + (xs.length : Int) - 1
    if xs = rangeIncl x u then some (x, u) else none

def argAdmits : Arg → Int → Bool
  | .var _, _ => true
  | .int i, j => decide (i = j)
  | .bad _, _ => false

/-- Specification of `numlist/3`. With integer bounds, or with a bound list, the relation is finite
and the goal must terminate. With an unbound bound and an unbound list the relation is infinite and
no order is documented: the specification is then the mechanism itself. -/
def specNumlist3 (n fuel : Nat) (L U : Arg) (Xs : LArg) : Res Tuple :=
  match canBeInt L with
  | some e => .err e
  | none =>
  match canBeInt U with
  | some e => .err e
  | none =>
  match L, U, Xs with
  | .int l, .int u, Xs =>
    if l ≤ u ∧ unifyInts (rangeIncl l u) Xs then ansN n [(l, u, rangeIncl l u)] else .ans []
  | L, U, .ints xs =>
    match boundsOf xs with
    | some (l, u) => if argAdmits L l && argAdmits U u then ansN n [(l, u, xs)] else .ans []
    | none => .ans []
  | L, U, .var => numlist3 n fuel L U .var

def specLength (n fresh : Nat) (xs0 : PList) (N : Arg) : Res LenAns :=
  match N with
  | .bad _ => .err (.typeInt N)
  | .int i =>
    if i < 0 then .err (.domNlz i)
    else
      match xs0.tail with
      | .nil => if i = xs0.k then ansN n [⟨i, []⟩] else .ans []
      | .nonlist => .ans []
      | .var _ => if i < xs0.k then .ans [] else ansN n [⟨i, freshVars fresh (i - xs0.k).toNat⟩]
  | .var v =>
    match xs0.tail with
    | .nil => ansN n [⟨xs0.k, []⟩]
    | .nonlist => .ans []
    | .var t =>
      if v = t then .err .resFinite
      else .ans ((List.range n).map fun (j : Nat) => ⟨(xs0.k : Int) + (j : Int), freshVars fresh j⟩)

end Scryer.IntRel
