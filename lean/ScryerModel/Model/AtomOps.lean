import ScryerModel.Model.Term
/-
C22 — executable model of the atom and character builtins

  atom_length/2, atom_chars/2, atom_codes/2, char_code/2, atom_concat/3, sub_atom/5
      (src/lib/builtins.pl on top of '$atom_length', '$atom_chars', '$atom_codes', '$char_code'
       in src/machine/system_calls.rs)
  char_type/2 (src/lib/charsio.pl, '$char_type' in system_calls.rs, the character class macros
       of src/parser/macros.rs)

An atom is its text, a `List Char` (Unicode scalar values). Every builtin is a total function from
classified arguments to `Except Err (List Subst)`: the error formal, or the ordered list of answer
substitutions. The functions follow the clauses of builtins.pl test by test, in the order of the
code, so that the error precedence and the enumeration order are those of the code.
No imports besides `Model/Term` (used for the culprit of an error only).
-/
namespace Scryer.AtomOps
open Scryer

/-! ## values, arguments, answers -/

/-- atomic values that the builtins consume and produce -/
inductive Atomic where
  | int (i : Int)
  | atom (a : List Char)
  deriving DecidableEq, Repr

/-- values bound to variables in an answer: an atomic value, a non-empty proper list of atomic
    values (the empty list is the atom `[]`), or `f(List)` (`lower("a")` of char_type/2). -/
inductive Val where
  | one (a : Atomic)
  | list (xs : List Atomic)
  | app (f : String) (xs : List Atomic)
  deriving DecidableEq, Repr

def nilAtom : Atomic := .atom ['[', ']']

/-- the list value; `[]` is the atom `[]`. -/
def Val.ofList (xs : List Atomic) : Val := if xs.isEmpty then .one nilAtom else .list xs

/-- answer substitution: variable name ↦ value, in binding order. -/
abbrev Subst := List (String × Val)

/-- a classified argument: unbound variable, integer or atom, anything else (compound, float,
    string, rational …; only ever used as the culprit of an error). -/
inductive Arg where
  | var (n : String)
  | con (a : Atomic)
  | other (t : Term)

/-- a list argument: the elements of its maximal list prefix and what follows
    (`'$skip_max_list'`): `[a,X|T]` is `⟨[a, X], T⟩`, `[]` is `⟨[], []⟩`, `foo` is `⟨[], foo⟩`. -/
structure LArg where
  elems : List Arg
  tail : Arg

def Atomic.toTerm : Atomic → Term
  | .int i => .int i
  | .atom a => .atom (String.ofList a)

def Arg.toTerm : Arg → Term
  | .var n => .var n
  | .con a => a.toTerm
  | .other t => t

def LArg.toTerm (l : LArg) : Term := Term.ofList (l.elems.map Arg.toTerm) l.tail.toTerm

mutual
def groundT : Term → Bool
  | .var _ => false
  | .str _ args => groundL args
  | _ => true
def groundL : List Term → Bool
  | [] => true
  | t :: ts => groundT t && groundL ts
end

def Arg.ground : Arg → Bool
  | .var _ => false
  | .con _ => true
  | .other t => groundT t

inductive Err where
  | inst
  | type (ty : String) (culprit : Term)
  | dom (d : String) (culprit : Term)
  | rep (what : String)

abbrev Res := Except Err (List Subst)

/-! ## unification of argument patterns with produced values -/

def bindVar (n : String) (v : Val) (s : Subst) : Option Subst :=
  match s.lookup n with
  | none => some (s ++ [(n, v)])
  | some w => if w = v then some s else none

def unifyArg (p : Arg) (v : Atomic) (s : Subst) : Option Subst :=
  match p with
  | .var n => bindVar n (.one v) s
  | .con a => if a = v then some s else none
  | .other _ => none

/-- unification of a list pattern (elements, tail) with a proper list of atomic values. -/
def unifyElems : List Arg → Arg → List Atomic → Subst → Option Subst
  | [], .var n, vs, s => bindVar n (Val.ofList vs) s
  | [], .con a, vs, s => if vs.isEmpty && a = nilAtom then some s else none
  | [], .other _, _, _ => none
  | _ :: _, _, [], _ => none
  | p :: ps, tl, v :: vs, s => (unifyArg p v s).bind (unifyElems ps tl vs)

def unifyL (l : LArg) (vs : List Atomic) (s : Subst) : Option Subst :=
  unifyElems l.elems l.tail vs s

def answers (o : Option Subst) : Res := .ok o.toList

def charAtom (c : Char) : Atomic := .atom [c]

def isCharArg : Arg → Bool
  | .con (.atom [_]) => true
  | _ => false

/-- the scalar values: what `char::from_u32` accepts. -/
def validScalar (k : Int) : Bool :=
  (decide (0 ≤ k) && decide (k < 0xD800)) || (decide (0xE000 ≤ k) && decide (k ≤ 0x10FFFF))

/-! ## atom_length/2 -/

def atomLength (a l : Arg) : Res :=
  match a with
  | .var _ => .error .inst
  | .con (.atom s) =>
    match l with
    | .var _ => answers (unifyArg l (.int s.length) [])
    | .con (.int k) =>
        if 0 ≤ k then answers (unifyArg l (.int s.length) [])
        else .error (.dom "not_less_than_zero" (.int k))
    | _ => .error (.type "integer" l.toTerm)
  | _ => .error (.type "atom" a.toTerm)

/-! ## atom_chars/2, atom_codes/2 -/

/-- `Tail == [] ; var(Tail)` after `'$skip_max_list'`. -/
def tailOk : Arg → Bool
  | .var _ => true
  | .con a => a = nilAtom
  | .other _ => false

/-- `chars_or_vars/2`: the first bound element that is not a one-character atom. -/
def charsOrVars : List Arg → Except Err Unit
  | [] => .ok ()
  | .var _ :: r => charsOrVars r
  | e :: r => if isCharArg e then charsOrVars r else .error (.type "character" e.toTerm)

/-- `codes_or_vars/2`: the first bound element that is not a character code. -/
def codesOrVars : List Arg → Except Err Unit
  | [] => .ok ()
  | .var _ :: r => codesOrVars r
  | .con (.int k) :: r => if validScalar k then codesOrVars r else .error (.rep "character_code")
  | e :: _ => .error (.type "integer" e.toTerm)

def charOf? : Arg → Option Char
  | .con (.atom [c]) => some c
  | _ => none

def codeOf? : Arg → Option Char
  | .con (.int k) => if validScalar k then some (Char.ofNat k.toNat) else none
  | _ => none

/-- common frame of atom_chars/2 and atom_codes/2. -/
def atomText (check : List Arg → Except Err Unit) (dec : Arg → Option Char) (enc : Char → Atomic)
    (a : Arg) (l : LArg) : Res :=
  if !tailOk l.tail then .error (.type "list" l.toTerm) else
  match a with
  | .var _ =>
    match l.tail with
    | .var _ => .error .inst
    | _ =>
      if l.elems.all Arg.ground then
        match check l.elems with
        | .error e => .error e
        | .ok () => answers (unifyArg a (.atom (l.elems.filterMap dec)) [])
      else .error .inst
  | .con (.atom s) =>
    match check l.elems with
    | .error e => .error e
    | .ok () => answers (unifyL l (s.map enc) [])
  | _ => .error (.type "atom" a.toTerm)

def codeAtomic (c : Char) : Atomic := .int c.toNat

def atomChars (a : Arg) (l : LArg) : Res := atomText charsOrVars charOf? charAtom a l
def atomCodes (a : Arg) (l : LArg) : Res := atomText codesOrVars codeOf? codeAtomic a l

/-! ## char_code/2 -/

def charCode (c k : Arg) : Res :=
  match c with
  | .var _ =>
    match k with
    | .var _ => .error .inst
    | .con (.int n) =>
        if validScalar n then answers (unifyArg c (charAtom (Char.ofNat n.toNat)) [])
        else .error (.rep "character_code")
    | _ => .error (.type "integer" k.toTerm)
  | .con (.atom [ch]) =>
    match k with
    | .var _ => answers (unifyArg k (.int ch.toNat) [])
    | .con (.int _) => answers (unifyArg k (.int ch.toNat) [])
    | _ => .error (.type "integer" k.toTerm)
  | _ => .error (.type "character" c.toTerm)

/-! ## atom_concat/3 -/

/-- the solutions of `append(Xs, Ys, L)` for a proper list `L`, in clause order. -/
def splits {α : Type} : List α → List (List α × List α)
  | [] => [([], [])]
  | x :: xs => ([], x :: xs) :: (splits xs).map (fun p => (x :: p.1, p.2))

/-- `error:can_be(Type, X)`: a bound `X` must be of the type. -/
def canBeAtom : Arg → Option Err
  | .var _ => none
  | .con (.atom _) => none
  | a => some (.type "atom" a.toTerm)

def canBeInt : Arg → Option Err
  | .var _ => none
  | .con (.int _) => none
  | a => some (.type "integer" a.toTerm)

/-- `append(X, Ys, Z)` with `X`, `Z` bound. -/
def stripPrefix? : List Char → List Char → Option (List Char)
  | [], z => some z
  | _ :: _, [] => none
  | x :: xs, z :: zs => if x = z then stripPrefix? xs zs else none

def atomConcat (a1 a2 a12 : Arg) : Res :=
  match canBeAtom a1 with
  | some e => .error e
  | none =>
  match canBeAtom a2 with
  | some e => .error e
  | none =>
  match canBeAtom a12 with
  | some e => .error e
  | none =>
  match a1, a2, a12 with
  | .var _, _, .var _ => .error .inst
  | .var _, .var _, .con (.atom z) =>
      .ok ((splits z).filterMap fun p =>
        (unifyArg a2 (.atom p.2) []).bind (unifyArg a1 (.atom p.1)))
  | .var _, .con (.atom y), .con (.atom z) =>
      match (splits z).find? (fun p => p.2 = y) with
      | some p => answers (unifyArg a1 (.atom p.1) [])
      | none => .ok []
  | .con (.atom _), .var _, .var _ => .error .inst
  | .con (.atom x), .var _, .con (.atom z) =>
      match stripPrefix? x z with
      | some y => answers (unifyArg a2 (.atom y) [])
      | none => .ok []
  | .con (.atom x), .con (.atom y), _ => answers (unifyArg a12 (.atom (x ++ y)) [])
  | _, _, _ => .ok []   -- not reachable: excluded by the three can_be tests

/-! ## sub_atom/5 -/

/-- the solutions of `append(B, LA, S), append(L, A, LA)` in the order Prolog finds them. -/
def subTriples {α : Type} (s : List α) : List (List α × List α × List α) :=
  (splits s).flatMap fun p => (splits p.2).map fun q => (p.1, q.1, q.2)

def negInt : Arg → Option Err
  | .con (.int k) => if k < 0 then some (.dom "not_less_than_zero" (.int k)) else none
  | _ => none

def firstErr : List (Option Err) → Option Err
  | [] => none
  | some e :: _ => some e
  | none :: r => firstErr r

def subAtom (atm b l a sub : Arg) : Res :=
  match atm with
  | .var _ => .error .inst
  | .con (.atom s) =>
    match firstErr [canBeAtom sub, canBeInt b, canBeInt l, canBeInt a, negInt b, negInt l, negInt a] with
    | some e => .error e
    | none =>
      .ok ((subTriples s).filterMap fun t =>
        (unifyArg b (.int t.1.length) []).bind fun s1 =>
        (unifyArg l (.int t.2.1.length) s1).bind fun s2 =>
        (unifyArg a (.int t.2.2.length) s2).bind fun s3 =>
        unifyArg sub (.atom t.2.1) s3)
  | _ => .error (.type "atom" atm.toTerm)

/-! ## char_type/2 -/

/-- what Rust's `char` methods say about a character (Unicode tables of the standard library):
    concrete for ASCII (`asciiInfo`), a parameter supplied by the host otherwise. -/
structure CharInfo where
  alphabetic : Bool
  numeric : Bool
  whitespace : Bool
  control : Bool
  lowercase : Bool
  uppercase : Bool
  upper : List Char      -- to_uppercase
  lower : List Char      -- to_lowercase
  deriving Repr, DecidableEq

def inRange (lo hi : Char) (cp : Nat) : Bool := decide (lo.toNat ≤ cp) && decide (cp ≤ hi.toNat)
def oneOf (cs : List Char) (cp : Nat) : Bool := cs.any (fun c => c.toNat == cp)

/-- `char::is_*` and the case mappings on ASCII (library/core/src/char/methods.rs: the ASCII fast
    paths). -/
def asciiInfo (cp : Nat) : CharInfo :=
  let lowerL := inRange 'a' 'z' cp
  let upperL := inRange 'A' 'Z' cp
  { alphabetic := lowerL || upperL
    numeric := inRange '0' '9' cp
    whitespace := cp == 0x20 || (decide (0x09 ≤ cp) && decide (cp ≤ 0x0D))
    control := decide (cp < 0x20) || cp == 0x7F
    lowercase := lowerL
    uppercase := upperL
    upper := [Char.ofNat (if lowerL then cp - 32 else cp)]
    lower := [Char.ofNat (if upperL then cp + 32 else cp)] }

/-! the macros of src/parser/macros.rs -/
def graphicChar (cp : Nat) : Bool :=
  oneOf ['#', '$', '&', '*', '+', '-', '.', '/', ':', '<', '=', '>', '?', '@', '^', '~'] cp
def backslashChar (cp : Nat) : Bool := cp == '\\'.toNat
def graphicTokenChar (cp : Nat) : Bool := graphicChar cp || backslashChar cp
def layoutChar (cp : Nat) : Bool := oneOf [' ', '\r', '\n', '\t', Char.ofNat 0x0B, Char.ofNat 0x0C] cp
def metaChar (cp : Nat) : Bool := oneOf ['\\', '\'', '"', '`'] cp
def soloChar (cp : Nat) : Bool := oneOf ['!', '(', ')', ',', ';', '[', ']', '{', '}', '|', '%'] cp
def alphaChar (i : CharInfo) (cp : Nat) : Bool :=
  (!i.numeric && !i.whitespace && !i.control && !graphicTokenChar cp && !layoutChar cp
    && !metaChar cp && !soloChar cp) || cp == '_'.toNat
def alphaNumericChar (i : CharInfo) (cp : Nat) : Bool := alphaChar i cp || i.numeric
def decimalDigitChar (cp : Nat) : Bool := inRange '0' '9' cp
def hexDigitChar (cp : Nat) : Bool := decimalDigitChar cp || inRange 'A' 'F' cp || inRange 'a' 'f' cp
def octalDigitChar (cp : Nat) : Bool := inRange '0' '7' cp
def binaryDigitChar (cp : Nat) : Bool := oneOf ['0', '1'] cp
def exponentChar (cp : Nat) : Bool := oneOf ['e', 'E'] cp
def signChar (cp : Nat) : Bool := oneOf ['-', '+'] cp
def octetChar (cp : Nat) : Bool := decide (cp ≤ 0xFF)
def symbolicControlChar (cp : Nat) : Bool := oneOf ['a', 'b', 'f', 'n', 'r', 't', 'v', '0'] cp
def symbolicHexChar (cp : Nat) : Bool := cp == 'x'.toNat
def prologChar (i : CharInfo) (cp : Nat) : Bool :=
  graphicChar cp || alphaNumericChar i cp || soloChar cp || layoutChar cp || metaChar cp
def asciiPunct (cp : Nat) : Bool :=
  inRange '!' '/' cp || inRange ':' '@' cp || inRange '[' '`' cp || inRange '{' '~' cp
def asciiGraphic (cp : Nat) : Bool := inRange '!' '~' cp

/-- the atomic classes, `ctype/1` of charsio.pl without `lower(_)`/`upper(_)`; `none` = not a class. -/
def classHolds (i : CharInfo) (cp : Nat) (name : String) : Option Bool :=
  match name with
  | "alnum" => some (alphaNumericChar i cp)
  | "alpha" => some (alphaChar i cp)
  | "alphabetic" => some i.alphabetic
  | "alphanumeric" => some (i.alphabetic || i.numeric)
  | "ascii" => some (decide (cp < 0x80))
  | "ascii_graphic" => some (asciiGraphic cp)
  | "ascii_punctuation" => some (asciiPunct cp)
  | "binary_digit" => some (binaryDigitChar cp)
  | "control" => some i.control
  | "decimal_digit" => some (decimalDigitChar cp)
  | "exponent" => some (exponentChar cp)
  | "graphic" => some (graphicChar cp)
  | "graphic_token" => some (graphicTokenChar cp)
  | "hexadecimal_digit" => some (hexDigitChar cp)
  | "layout" => some (layoutChar cp)
  | "lower" => some i.lowercase
  | "meta" => some (metaChar cp)
  | "numeric" => some i.numeric
  | "octal_digit" => some (octalDigitChar cp)
  | "octet" => some (octetChar cp)
  | "prolog" => some (prologChar i cp)
  | "sign" => some (signChar cp)
  | "solo" => some (soloChar cp)
  | "symbolic_control" => some (symbolicControlChar cp)
  | "symbolic_hexadecimal" => some (symbolicHexChar cp)
  | "upper" => some i.uppercase
  | "whitespace" => some i.whitespace
  | _ => none

/-- the second argument of char_type/2, classified. -/
inductive TArg where
  | var (n : String)
  | name (s : String)                -- an atom
  | fn (f : String) (u : LArg)       -- `lower(U)` / `upper(U)` (f is one of the two)
  | bad (t : Term)                   -- anything else

/-- the clauses of `ctype/1` in source order. -/
inductive CType where
  | cls (name : String)
  | fn (f : String)
  deriving DecidableEq, Repr

def ctypes : List CType :=
  (["alnum", "alpha", "alphabetic", "alphanumeric", "ascii", "ascii_graphic", "ascii_punctuation",
    "binary_digit", "control", "decimal_digit", "exponent", "graphic", "graphic_token",
    "hexadecimal_digit", "layout", "lower", "meta", "numeric", "octal_digit", "octet", "prolog",
    "sign", "solo", "symbolic_control", "symbolic_hexadecimal"].map CType.cls)
  ++ [.fn "lower", .fn "upper", .cls "upper", .cls "whitespace"]

def caseOf (i : CharInfo) (f : String) : List Char := if f == "lower" then i.lower else i.upper

/-- `ctype(Type), '$char_type'(Char, Type)` for one clause of ctype/1 and a given character. -/
def typeAnswer (i : CharInfo) (cp : Nat) (t : TArg) (ct : CType) : Option Subst :=
  match ct, t with
  | .cls nm, .var v =>
      if classHolds i cp nm = some true then some [(v, .one (.atom nm.toList))] else none
  | .cls nm, .name s => if nm = s ∧ classHolds i cp nm = some true then some [] else none
  | .fn f, .var v => some [(v, .app f ((caseOf i f).map charAtom))]
  | .fn f, .fn g u => if f = g then unifyL u ((caseOf i f).map charAtom) [] else none
  | _, _ => none

/-- does `\+ ctype(Type)` hold? (then domain_error(char_type, Type)) -/
def isCType : TArg → Bool
  | .var _ => true
  | .name s => ctypes.contains (.cls s)
  | .fn f _ => ctypes.contains (.fn f)
  | .bad _ => false

def LArg.ground (l : LArg) : Bool := l.elems.all Arg.ground && l.tail.ground

def TArg.ground : TArg → Bool
  | .var _ => false
  | .name _ => true
  | .fn _ u => u.ground
  | .bad t => groundT t

def TArg.toTerm : TArg → Term
  | .var n => .var n
  | .name s => .atom s
  | .fn f u => .str f [u.toTerm]
  | .bad t => t

/-- `ccode/1`: the scalar values below `limit` in ascending order. -/
def ccodes (limit : Nat) : List Nat :=
  (List.range (min limit 0xD800)) ++ (List.range' 0xE000 (min limit 0x110000 - 0xE000))

/-- `'$char_type'(Char, Type)` for a ground `Type`. -/
def typeHolds (i : CharInfo) (cp : Nat) : TArg → Bool
  | .name s => classHolds i cp s = some true
  | .fn f u => (unifyL u ((caseOf i f).map charAtom) []).isSome
  | _ => false

/-- char_type/2. `info` gives the standard library's view of each character; `limit` bounds the
    code points enumerated when the character is unbound (0x110000 = all). -/
def charType (info : Nat → CharInfo) (limit : Nat) (c : Arg) (t : TArg) : Res :=
  match c with
  | .con (.atom [ch]) =>
      if !isCType t then .error (.dom "char_type" t.toTerm) else
      .ok (ctypes.filterMap (typeAnswer (info ch.toNat) ch.toNat t))
  | .var v =>
      if !isCType t then .error (.dom "char_type" t.toTerm) else
      if t.ground then
        .ok (((ccodes limit).filter fun cp => typeHolds (info cp) cp t).map fun cp =>
          [(v, .one (charAtom (Char.ofNat cp)))])
      else .error .inst
  | _ => .error (.type "character" c.toTerm)

end Scryer.AtomOps
