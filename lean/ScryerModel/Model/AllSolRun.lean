import ScryerModel.Model.Solve
import ScryerModel.Model.AllSol
/-
C25 — the all-solutions predicates on top of the reference interpreter `Scryer.Solve`.

`solveX` is `Scryer.Solve.solve` with one more layer in front of `Solve.step`:
`findall/3`, `findall/4`, `bagof/3`, `setof/3`, `forall/2` are interpreted here (so they can be
nested and can occur in clause bodies); every other goal is handed to `Solve.step` unchanged.

* `findallX`  — `findall/3,4` of builtins.pl: `can_be(list, …)` on the result arguments FIRST,
  then all answers of the goal, each template instance copied; an exception of the goal after k
  answers is re-raised (the collected copies are dropped); result `S0 = copies ++ S1`.
* `bagofX`    — `bagof/3` / `setof/3` of builtins.pl, in the order of the library code: type check,
  free-variable analysis on the *resolved* template and goal, `findall(Witnesses-Template, Goal')`,
  canonical witness variables, keysort / sort, `split_by_variant/3` alternatives, each unified with
  `Witnesses` and the result argument. `fixed = true` is the repaired witness computation
  (finding C25-1), `fixed = false` the pinned `append/3`.
* A sort whose outcome depends on the order of two distinct variables is outside the model
  (`Res.oofR`, the channel `Solve` uses for everything it does not speak about).
* Module qualifications `M:G` are transparent (`G` is run); only `user` is used by the check.
-/
namespace Scryer.AllSol
open Scryer Scryer.Solve

/-- the mode of the witness computation. -/
structure Cfg where
  fixed : Bool
  age : String → Nat

def pairTerm (w t : Term) : Term := .str "-" [w, t]

def unpair : Term → Term × Term
  | .str "-" [w, t] => (w, t)
  | t => (t, t)

def varList (vs : List String) : Term := Term.ofList (vs.map Term.var)

/-- names of the dictionary variables of one `bagof/3` call (fresh for counter `c`). -/
def dictName (c : Nat) (i : Nat) : String := "_D" ++ toString i ++ sfx c

/-- `can_be(list, L)`. -/
def canBeList (n : Nat) (s : St) (l : Term) (k : Unit → Res) : Res :=
  match isPartialList n s.σ l with
  | none => Res.oofR
  | some false => raise n s (mkError (typeErr "list" l))
  | some true => k ()

/-- `findall(T, G, L, Tl)` (`findall/3` is the case `Tl = []`). -/
def findallX (rec : Term → St → Res) (n : Nat) (s : St) (t g l tl : Term) : Res :=
  canBeList n s l fun _ =>
  canBeList n s tl fun _ =>
    let rG := callGoal rec n s g []
    if rG.oof then Res.oofR
    else
      match rG.exc with
      | some e => Res.throw e
      | .none =>
        match instances n t s.ctr rG.sols with
        | none => Res.oofR
        | some ts =>
          let c' := s.ctr + ts.length
          match unify n s.σ l (Term.ofList ts tl) with
          | .none => Res.oofR
          | some .none => Res.none
          | some (some σ') => Res.one ⟨σ', c'⟩

/-- the alternatives of `split_by_variant/3`: `V = Ws, Solutions = [S|Solutions0]` for each group
    in turn; an alternative whose unification fails delivers no answer. -/
def groupAnswers (n : Nat) (σ : Subst) (c' : Nat) (ws l : Term) :
    List (Term × List Term) → Option (List St)
  | [] => some []
  | (w, ts) :: gs =>
      match unify n σ w ws with
      | none => none
      | some none => groupAnswers n σ c' ws l gs
      | some (some σ1) =>
        match unify n σ1 l (Term.ofList ts) with
        | none => none
        | some none => groupAnswers n σ c' ws l gs
        | some (some σ2) =>
          match groupAnswers n σ c' ws l gs with
          | none => none
          | some r => some (⟨σ2, c'⟩ :: r)

/-- what `findall_with_existential/5` decides (no fuel involved): fail, or run `goal` with the
    witness variables `ws` after unifying the pairs `al` (non-empty only for the pinned code). -/
inductive Ana where
  | fail
  | run (goal : Term) (ws : List String) (al : List (String × String))

def analysePure (cfg : Cfg) (t' g' : Term) : Ana :=
  let w0 := witnesses0 t' g'
  let g1 := stripModule g'
  match g' , g1 with
  | .var _, _ => .run g' w0 []
  | _, .str "^" [_, _] =>
      let r := rightmostPower none g1
      let ev := existVars r.2
      if cfg.fixed then .run (stripModule r.1) (witFixed w0 ev) []
      else
        match witPinned w0 ev with
        | none => .fail
        | some (al, ws) => .run (stripModule r.1) ws al
  | _, _ => .run g' w0 []

/-- `analysePure` plus the aliasing unifications of the pinned code; `none` = out of fuel,
    `some none` = the call fails. -/
def analyse (cfg : Cfg) (n : Nat) (σ : Subst) (t' g' : Term) :
    Option (Option (Term × List String × Subst)) :=
  match analysePure cfg t' g' with
  | .fail => some none
  | .run goal ws al =>
      match unify n σ (varList (al.map (·.1))) (varList (al.map (·.2))) with
      | none => none
      | some none => some none
      | some (some σ') => some (some (goal, ws, σ'))

/-- is the outcome of the sort of `bagof/3` (keys) resp. `setof/3` (whole pairs) independent of
    the order of distinct variables? -/
def sortOk (isSet : Bool) (pairs : List (Term × Term)) : Bool :=
  if isSet then orderFixed (pairs.map fun p => pairTerm p.1 p.2) else orderFixed (pairs.map (·.1))

/-- `keysort/2` + `split_by_variant/3` resp. `sort/2` + `split_by_variant/3` over the standard order. -/
def groupsOf (cfg : Cfg) (isSet : Bool) (pairs : List (Term × Term)) : List (Term × List Term) :=
  if isSet then setofGroups (Order.termCompare cfg.age) (Order.termCompare cfg.age) pairs
  else bagofGroups (Order.termCompare cfg.age) pairs

/-- the last goals of `bagof/3` / `setof/3`: enumerate the groups. A sort that depends on the order
    of two distinct variables (`ok = false`) is outside the model. -/
def finishX (n : Nat) (σa : Subst) (c' : Nat) (wsT l : Term) (ok : Bool)
    (groups : List (Term × List Term)) : Res :=
  if ok then
    match groupAnswers n σa (c' + 1) wsT l groups with
    | none => Res.oofR
    | some sols => ⟨sols, false, .none, false⟩
  else Res.oofR

/-- `bagof/3` (`isSet = false`) and `setof/3` (`isSet = true`). -/
def bagofX (cfg : Cfg) (isSet : Bool) (rec : Term → St → Res) (n : Nat) (s : St)
    (t g l : Term) : Res :=
  canBeList n s l fun _ =>
    match resolve n s.σ t, resolve n s.σ g with
    | some t', some g' =>
      match analyse cfg n s.σ t' g' with
      | none => Res.oofR
      | some none => Res.none
      | some (some (goal, ws, σa)) =>
        let wsT := varList ws
        let sa : St := ⟨σa, s.ctr⟩
        let rG := callGoal rec n sa goal []
        if rG.oof then Res.oofR
        else
          match rG.exc with
          | some e => Res.throw e
          | .none =>
            match instances n (pairTerm wsT t') s.ctr rG.sols with
            | none => Res.oofR
            | some ps =>
              let c' := s.ctr + ps.length
              let pairs := (ps.map unpair).map (canonPair (dictName c'))
              finishX n σa c' wsT l (sortOk isSet pairs) (groupsOf cfg isSet pairs)
    | _, _ => Res.oofR

inductive XGoal where
  | findall (t g l tl : Term)
  | bagof (isSet : Bool) (t g l : Term)
  | forall (c a : Term)
  | other

def classifyX : Term → XGoal
  | .str "findall" [t, g, l] => .findall t g l Term.nil
  | .str "findall" [t, g, l, tl] => .findall t g l tl
  | .str "bagof" [t, g, l] => .bagof false t g l
  | .str "setof" [t, g, l] => .bagof true t g l
  | .str "forall" [c, a] => .forall c a
  | _ => .other

/-- `forall(C, A) :- \+ (C, \+ A)` (src/lib/iso_ext.pl). -/
def forallBody (c a : Term) : Term := .str "\\+" [.str "," [c, .str "\\+" [a]]]

def stepX (cfg : Cfg) (prog : Prog) (rec : Term → St → Res) (n : Nat) (g : Term) (s : St) : Res :=
  match classifyX g with
  | .findall t g1 l tl => findallX rec n s t g1 l tl
  | .bagof isSet t g1 l => bagofX cfg isSet rec n s t g1 l
  | .forall c a => rec (forallBody c a) s
  | .other =>
      match g with
      | .str ":" [_, g1] => rec g1 s
      | _ => step prog rec n g s

/-- the reference interpreter with the all-solutions predicates. -/
def solveX (cfg : Cfg) : Nat → Prog → Term → St → Res
  | 0, _, _, _ => Res.oofR
  | n+1, prog, g, s => stepX cfg prog (solveX cfg n prog) n g s

end Scryer.AllSol
