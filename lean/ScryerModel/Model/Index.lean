/-!
# Model of first-(instantiated-)argument indexing  (property C06)

Mirrors, at the level of *which clauses are tried and in which order*:

* `src/codegen.rs`  `split_predicate` (cut a predicate into subsequences: maximal runs of
  clauses whose first non-variable argument sits at the same position; a clause with only
  variable arguments is a subsequence of its own) and `compile_pred_subseq` (index code is
  only emitted for runs of ≥ 2 clauses, or always for extensible = dynamic/asserted code);
* `src/indexing.rs` `CodeOffsets::index_term / index_constant / index_structure / index_list`,
  `constant_key_alternatives`, `compute_indices` (`switch_on`, `second_level_index`,
  `switch_on_list`), and for incrementally added clauses `merge_clause_index`
  (`index_constant`, `index_overlapping_constant`, `index_structure`, `index_list`,
  `internalize_constant/structure`, `search_skeleton_for_first_key_type`),
  and `remove_index` (`remove_constant_indices`, `remove_structure_index`, `remove_list_index`);
* `src/machine/dispatch.rs` `select_switch_on_term_index`, the `SwitchOnConstant` /
  `SwitchOnStructure` arms of `execute_switch_on_term`, and the birth/death filtering of
  dynamic clauses (`find_living_dynamic`, `dynamic_external_of_clause_is_valid`);
* `src/machine/compile.rs` `append_compiled_clause` / `prepend_compiled_clause` (which
  subsequence a new clause joins) and `retract_dynamic_clause` (a retracted dynamic clause is
  only stamped dead; its index entries stay).

Abstraction: the flat `Vec<IndexingLine>` with relative offsets is represented as a tree
(`Slot`/`Ptr`), and clause code addresses by clause identifiers (creation order).  Everything
that decides *which key a clause is filed under* and *which entry a call looks at* is kept.

Constants are keyed exactly as the code keys them (`HeapCellValue` compared as a raw cell):
atoms by name, fixnums by value, floats by their interned `F64Offset` (one offset per float
value, modelled by the IEEE bits), arena numbers (bignums, rationals) by ADDRESS (`CKey.ptr`).
-/
namespace Scryer.Index

/-! ## Values -/

def FIX_MIN : Int := -(2^55)
def FIX_MAX : Int := 2^55 - 1

/-- `Fixnum::build_with_checked(n).is_ok()`: fits the 56-bit signed payload. -/
def fitsFixnum (n : Int) : Bool := decide (FIX_MIN ≤ n) && decide (n ≤ FIX_MAX)

/-- A key of the `SwitchOnConstant` hash map: a raw heap cell. -/
inductive CKey where
  | atom (s : String)
  | fix (n : Int)
  | flt (bits : Nat)
  | ptr (addr : Nat)
  deriving DecidableEq, Repr

/-- A `Literal` in a clause head. `big`/`rat` are arena objects: they have an address.
Rationals are in lowest terms with a positive denominator (as `dashu` keeps them). -/
inductive Lit where
  | atom (s : String)
  | fix (n : Int)
  | flt (bits : Nat)
  | big (addr : Nat) (n : Int)
  | rat (addr : Nat) (num : Int) (den : Nat)
  deriving DecidableEq, Repr

/-- The kind of one argument of a clause head, as `index_term` sees it. Strings and partial
strings are `list`; `'.'/2` is `list`. -/
inductive FirstArg where
  | var
  | const (l : Lit)
  | list
  | struct (name : String) (arity : Nat)
  deriving DecidableEq, Repr

/-- The kind of one (dereferenced) argument of a call, as `select_switch_on_term_index`
sees it. `arenaNum` is a `Cons` cell pointing to an arena `Integer`/`Rational`. -/
inductive CallArg where
  | var
  | atom (s : String)
  | fix (n : Int)
  | flt (bits : Nat)
  | arenaNum (addr : Nat) (num : Int) (den : Nat)
  | list
  | struct (name : String) (arity : Nat)
  deriving DecidableEq, Repr

abbrev Head := List FirstArg
abbrev Call := List CallArg

/-- the exact numeric value (numerator, denominator) of an integer/rational literal. -/
def Lit.val : Lit → Option (Int × Nat)
  | .fix n => some (n, 1)
  | .big _ n => some (n, 1)
  | .rat _ n d => some (n, d)
  | _ => none

/-- the raw cell the literal is filed under (`HeapCellValue::from(literal)`). -/
def Lit.key : Lit → CKey
  | .atom s => .atom s
  | .fix n => .fix n
  | .flt b => .flt b
  | .big a _ => .ptr a
  | .rat a _ _ => .ptr a

/-- `constant_key_alternatives`: an arena integer, or a rational with denominator 1, whose
value fits a fixnum is ALSO filed under that fixnum. -/
def Lit.altKey : Lit → Option CKey
  | .big _ n => if fitsFixnum n then some (.fix n) else none
  | .rat _ n d => if d = 1 then (if fitsFixnum n then some (.fix n) else none) else none
  | _ => none

/-- Could the head argument unify with the call argument (kind level)?  Integers and
rationals unify by value whatever their representation; floats only with the same float. -/
def compat : FirstArg → CallArg → Bool
  | .var, _ => true
  | _, .var => true
  | .const l, .atom s => l = .atom s
  | .const l, .fix n => l.val = some (n, 1)
  | .const l, .flt b => l = .flt b
  | .const l, .arenaNum _ n d => l.val = some (n, d)
  | .list, .list => true
  | .struct n a, .struct n' a' => n = n' && a = a'
  | _, _ => false

/-- `compat` on every argument position (missing call arguments count as unbound). -/
def compatHead : Head → Call → Bool
  | [], _ => true
  | a :: r, [] => compat a .var && compatHead r []
  | a :: r, c :: cs => compat a c && compatHead r cs

/-- position of the first non-variable argument (`split_predicate`'s inner loop). -/
def firstInstFrom : Head → Nat → Option Nat
  | [], _ => none
  | a :: r, i => if a = .var then firstInstFrom r (i + 1) else some i

def firstInst (h : Head) : Option Nat := firstInstFrom h 0

/-- The argument used for indexing a clause that sits in a subsequence switching on `arg`. -/
def argAt (h : Head) (arg : Nat) : FirstArg := h.getD arg .var

/-- `OptArgIndexKey` of a clause compiled on its own: position and kind of its first
non-variable argument. -/
def optKey (h : Head) : Option (Nat × FirstArg) :=
  match firstInst h with
  | some i => some (i, argAt h i)
  | none => none

/-! ## Index code as a tree -/

/-- What a second-level entry points to: nothing, one clause (`External`/`DynamicExternal`),
or a third-level `IndexedChoice`/`DynamicIndexedChoice` run of clauses. -/
inductive Ptr where
  | fail
  | ext (c : Nat)
  | choice (cs : List Nat)
  deriving DecidableEq, Repr

def Ptr.ids : Ptr → List Nat
  | .fail => []
  | .ext c => [c]
  | .choice cs => cs

/-- The `c` or `s` operand of `SwitchOnTerm`: either a direct pointer or
`Internal` → `SwitchOnConstant`/`SwitchOnStructure` hash map (insertion ordered). -/
inductive Slot (κ : Type) where
  | leaf (p : Ptr)
  | table (t : List (κ × Ptr))
  deriving Repr

section tables
variable {κ : Type} [DecidableEq κ]

def tlookup : List (κ × Ptr) → κ → Option Ptr
  | [], _ => none
  | (k', p) :: r, k => if k' = k then some p else tlookup r k

/-- `IndexMap::insert`: replace the value of an existing key, else append. -/
def tinsert : List (κ × Ptr) → κ → Ptr → List (κ × Ptr)
  | [], k, p => [(k, p)]
  | (k', p') :: r, k, p => if k' = k then (k, p) :: r else (k', p') :: tinsert r k p

/-- `IndexMap::swap_remove` (the order of the other entries is irrelevant to look-ups). -/
def tremove : List (κ × Ptr) → κ → List (κ × Ptr)
  | [], _ => []
  | (k', p') :: r, k => if k' = k then r else (k', p') :: tremove r k

/-- look a key up the way `execute_switch_on_term` does: a direct pointer ignores the key,
a hash map miss is `Fail`. -/
def Slot.look : Slot κ → κ → Ptr
  | .leaf p, _ => p
  | .table t, k => (tlookup t k).getD .fail

end tables

/-- The indexing code of one subsequence: `SwitchOnTerm(arg, v, c, l, s)`. `chain` is the
inner `try_me_else / retry_me_else / trust_me` thread that `v` enters. -/
structure Sub where
  arg : Nat
  chain : List Nat
  c : Slot CKey
  l : Ptr
  s : Slot (String × Nat)
  deriving Repr

/-- One link of the outer `try_me_else` chain. -/
inductive Seg where
  | plain (chain : List Nat)
  | indexed (sub : Sub)
  deriving Repr

def Seg.chain : Seg → List Nat
  | .plain ch => ch
  | .indexed sub => sub.chain

/-- A predicate: its code (`segs`), every clause ever added with its head (`store`; the
skeleton plus `retracted_dynamic_clauses`), the retracted ones (`dead`, newest first) and the
next clause identifier. -/
structure Index where
  segs : List Seg
  store : List (Nat × Head)
  dead : List Nat
  next : Nat
  deriving Repr

def headOf (store : List (Nat × Head)) (id : Nat) : Option Head :=
  match store with
  | [] => none
  | (i, h) :: r => if i = id then some h else headOf r id

def Index.alive (idx : Index) (id : Nat) : Bool := !(idx.dead.contains id)

/-- all clause identifiers in code order (dead ones included). -/
def Index.order (idx : Index) : List Nat := idx.segs.flatMap Seg.chain

/-- the skeleton: live clauses in textual order. -/
def Index.live (idx : Index) : List Nat := idx.order.filter idx.alive

/-! ## Dispatch (`select_switch_on_term_index` + second level) -/

/-- The key a constant call argument is looked up with (`hm.get(&addr)`). -/
def CallArg.ckey : CallArg → Option CKey
  | .atom s => some (.atom s)
  | .fix n => some (.fix n)
  | .flt b => some (.flt b)
  | .arenaNum a _ _ => some (.ptr a)
  | _ => none

/-- Clauses a subsequence hands to the call, in trial order. `oldRoute = true` is the code
before the repair: arena numbers went to the constant table, keyed by address. -/
def Sub.selectWith (oldRoute : Bool) (sub : Sub) (a : CallArg) : List Nat :=
  match a with
  | .var => sub.chain
  | .list => sub.l.ids
  | .struct n ar => (sub.s.look (n, ar)).ids
  | .atom s => (sub.c.look (.atom s)).ids
  | .fix n => (sub.c.look (.fix n)).ids
  | .flt b => (sub.c.look (.flt b)).ids
  | .arenaNum addr _ _ => if oldRoute then (sub.c.look (.ptr addr)).ids else sub.chain

def Seg.selectWith (oldRoute : Bool) (call : Call) : Seg → List Nat
  | .plain ch => ch
  | .indexed sub => sub.selectWith oldRoute (call.getD sub.arg .var)

/-- Clause identifiers tried for `call`, in order; retracted clauses are skipped at run time. -/
def Index.selectWith (oldRoute : Bool) (idx : Index) (call : Call) : List Nat :=
  (idx.segs.flatMap (Seg.selectWith oldRoute call)).filter idx.alive

/-- The code as it is now. -/
def select (idx : Index) (call : Call) : List Nat := idx.selectWith false call

/-- The routing before the repair (kept to document sensitivity). -/
def selectOld (idx : Index) (call : Call) : List Nat := idx.selectWith true call

/-! ## Whole-predicate compilation (`compile_predicate`) -/

structure Span where
  left : Nat
  right : Nat
  arg : Nat
  deriving Repr, DecidableEq

/-- `split_predicate`, loop body by loop body. `right` is the loop counter, `left` the start of
the open subsequence, `opt` its `optimal_index`. -/
def splitGo : List Head → (right left opt : Nat) → List Span → List Span
  | [], right, left, opt, acc =>
    if left < right then acc ++ [⟨left, right, opt⟩] else acc
  | h :: rest, right, left, opt, acc =>
    match firstInst h with
    | some i =>
      if opt ≠ i then
        if left ≥ right then splitGo rest (right + 1) left i acc
        else splitGo rest (right + 1) right i (acc ++ [⟨left, right, opt⟩])
      else splitGo rest (right + 1) left opt acc
    | none =>
      let acc := if left < right then acc ++ [⟨left, right, opt⟩] else acc
      splitGo rest (right + 1) (right + 1) 0 (acc ++ [⟨right, right + 1, 0⟩])

def split (cs : List Head) : List Span := splitGo cs 0 0 0 []

/-- `CodeOffsets.indices`: insertion-ordered maps key ↦ clauses, and the list clauses. -/
structure Offsets where
  consts : List (CKey × List Nat)
  lists : List Nat
  structs : List ((String × Nat) × List Nat)
  deriving Repr

def Offsets.empty : Offsets := ⟨[], [], []⟩

/-- `map.entry(k).or_default().push_back(id)`. -/
def ginsert {κ : Type} [DecidableEq κ] : List (κ × List Nat) → κ → Nat → List (κ × List Nat)
  | [], k, id => [(k, [id])]
  | (k', l) :: r, k, id => if k' = k then (k', l ++ [id]) :: r else (k', l) :: ginsert r k id

/-- `CodeOffsets::index_term` (with `index_constant`, `index_structure`, `index_list`). -/
def indexTerm (o : Offsets) (fa : FirstArg) (id : Nat) : Offsets :=
  match fa with
  | .list => { o with lists := o.lists ++ [id] }
  | .struct n a => { o with structs := ginsert o.structs (n, a) id }
  | .const l =>
    let cs := ginsert o.consts l.key id
    match l.altKey with
    | some k => { o with consts := ginsert cs k id }
    | none => { o with consts := cs }
  | .var => o

/-- `second_level_index`: one clause ↦ `External`, several ↦ an `IndexedChoice` line. -/
def secondLevel {κ : Type} : List (κ × List Nat) → List (κ × Ptr)
  | [] => []
  | (_, []) :: r => secondLevel r
  | (k, [i]) :: r => (k, .ext i) :: secondLevel r
  | (k, code) :: r => (k, .choice code) :: secondLevel r

/-- `switch_on`: a hash map is only emitted for ≥ 2 keys; with one key its pointer is used
directly (so the key is then NOT compared at run time). -/
def switchOn {κ : Type} (m : List (κ × List Nat)) : Slot κ :=
  let t := secondLevel m
  if t.length > 1 then .table t
  else match t with
    | (_, p) :: _ => .leaf p
    | [] => .leaf .fail

/-- `switch_on_list`. -/
def switchOnList (l : List Nat) : Ptr :=
  if l.length > 1 then .choice l
  else match l with
    | i :: _ => .ext i
    | [] => .fail

def Offsets.noIndices (o : Offsets) : Bool := o.consts.isEmpty && o.structs.isEmpty && o.lists.isEmpty

/-- `compile_pred_subseq`: `members` are the clauses of the run (identifier, head), `arg` its
`optimal_index`, `ext` = `settings.is_extensible`. -/
def compileSeg (ext : Bool) (arg : Nat) (members : List (Nat × Head)) : Seg :=
  let ids := members.map (·.1)
  if members.length > 1 || ext then
    let o := members.foldl (fun o m => indexTerm o (argAt m.2 arg) m.1) Offsets.empty
    if o.noIndices then .plain ids
    else .indexed { arg := arg, chain := ids, c := switchOn o.consts, l := switchOnList o.lists,
                    s := switchOn o.structs }
  else .plain ids

/-- clauses numbered from `n`. -/
def enumFrom' : Nat → List Head → List (Nat × Head)
  | _, [] => []
  | n, h :: r => (n, h) :: enumFrom' (n + 1) r

def spanMembers (all : List (Nat × Head)) (sp : Span) : List (Nat × Head) :=
  (all.drop sp.left).take (sp.right - sp.left)

/-- `compile_predicate` for a clause list; clause identifiers are the textual positions.
`ext = false`: consulted static code; `ext = true`: a dynamic predicate's initial clauses. -/
def build (ext : Bool) (cs : List Head) : Index :=
  let all := enumFrom' 0 cs
  { segs := (split cs).map (fun sp => compileSeg ext sp.arg (spanMembers all sp)),
    store := all, dead := [], next := cs.length }

/-! ## Adding a clause to existing code (`merge_clause_index`) -/

inductive Mode where
  | append
  | prepend
  deriving DecidableEq, Repr

def Mode.pair : Mode → Nat → Nat → List Nat
  | .append, o, id => [o, id]
  | .prepend, o, id => [id, o]

def Mode.extend : Mode → List Nat → Nat → List Nat
  | .append, cs, id => cs ++ [id]
  | .prepend, cs, id => id :: cs

/-- The `SwitchOnConstant`/`SwitchOnStructure` arm shared by `index_constant`,
`index_overlapping_constant` and `index_structure`. -/
def tableIndex {κ : Type} [DecidableEq κ] (m : Mode) (t : List (κ × Ptr)) (k : κ) (id : Nat) :
    List (κ × Ptr) :=
  match tlookup t k with
  | none => tinsert t k (.ext id)
  | some .fail => tinsert t k (.ext id)
  | some (.ext o) => tinsert t k (.choice (m.pair o id))
  | some (.choice cs) => tinsert t k (.choice (m.extend cs id))

/-- `internalize_constant/structure`: the existing direct pointer becomes the first entry of a
new hash map, under the key found by `search_skeleton_for_first_key_type` (`found`). -/
def internalize {κ : Type} (found : Option κ) (p : Ptr) : List (κ × Ptr) :=
  match found with
  | some k => [(k, p)]
  | none => []

/-- `index_constant` / `index_structure`. -/
def indexKey {κ : Type} [DecidableEq κ] (m : Mode) (found : Option κ) (slot : Slot κ) (k : κ)
    (id : Nat) : Slot κ :=
  match slot with
  | .leaf .fail => .leaf (.ext id)
  | .leaf p => .table (tableIndex m (internalize found p) k id)
  | .table t => .table (tableIndex m t k id)

/-- `index_overlapping_constant(orig, k2)`, run after `index_constant(orig)`. -/
def indexOverlap {κ : Type} [DecidableEq κ] (m : Mode) (found : Option κ) (slot : Slot κ)
    (orig k2 : κ) (id : Nat) : Slot κ :=
  match slot with
  | .leaf .fail => .leaf (.ext id)
  | .leaf (.ext o) => .table (tableIndex m [(orig, .ext o)] k2 id)
  | .leaf (.choice cs) => .table (tableIndex m (internalize found (.choice cs)) k2 id)
  | .table t => .table (tableIndex m t k2 id)

/-- `index_list`. -/
def indexList (m : Mode) (l : Ptr) (id : Nat) : Ptr :=
  match l with
  | .fail => .ext id
  | .ext o => .choice (m.pair o id)
  | .choice cs => .choice (m.extend cs id)

/-- `merge_clause_index`: file clause `id` (indexed argument `fa`) in the subsequence.
`foundC`/`foundS`: results of `search_skeleton_for_first_key_type` for literal / structure. -/
def Sub.merge (m : Mode) (foundC : Option CKey) (foundS : Option (String × Nat)) (sub : Sub)
    (fa : FirstArg) (id : Nat) : Sub :=
  let sub := { sub with chain := m.extend sub.chain id }
  match fa with
  | .const l =>
    let c1 := indexKey m foundC sub.c l.key id
    match l.altKey with
    | some k2 => { sub with c := indexOverlap m foundC c1 l.key k2 id }
    | none => { sub with c := c1 }
  | .struct n a => { sub with s := indexKey m foundS sub.s (n, a) id }
  | .list => { sub with l := indexList m sub.l id }
  | .var => sub

/-- `search_skeleton_for_first_key_type`, literal keys: first hit in `skel` (already in search
direction), else in the retracted clauses, newest first. The position of the key is not
compared (as in the code). -/
def searchLit (store : List (Nat × Head)) : List Nat → Option CKey
  | [] => none
  | id :: r =>
    match (headOf store id).bind optKey with
    | some (_, .const l) => some l.key
    | _ => searchLit store r

def searchStruct (store : List (Nat × Head)) : List Nat → Option (String × Nat)
  | [] => none
  | id :: r =>
    match (headOf store id).bind optKey with
    | some (_, .struct n a) => some (n, a)
    | _ => searchStruct store r

/-- Replace the segment that contains clause `t` by `f seg`, if `f` accepts it. -/
def modifySegOf (t : Nat) (f : Seg → Option Seg) : List Seg → Option (List Seg)
  | [] => none
  | s :: r =>
    if s.chain.contains t then (f s).map (· :: r)
    else (modifySegOf t f r).map (s :: ·)

/-- the segment that contains clause `t`. -/
def segOf (t : Nat) : List Seg → Option Seg
  | [] => none
  | s :: r => if s.chain.contains t then some s else segOf t r

/-- A clause compiled on its own with `is_extensible` (`compile_standalone_clause`). -/
def standalone (id : Nat) (h : Head) : Seg :=
  compileSeg true ((firstInst h).getD 0) [(id, h)]

/-- `assertz` on a dynamic predicate: `incremental_compile_clause(Append)` →
`append_compiled_clause`. The clause joins the subsequence of the last live clause when that
one is indexed on the same argument position; else it starts a new subsequence at the end.
With no live clause left the predicate is compiled afresh. -/
def addBack (idx : Index) (h : Head) : Index :=
  let id := idx.next
  let idx' : Index := { idx with store := (id, h) :: idx.store, next := id + 1 }
  match idx.live.getLast? with
  | none => { idx' with segs := [standalone id h] }
  | some t =>
    let span := ((segOf t idx.segs).map Seg.chain).getD []
    let skel := (span.filter idx.alive).reverse ++ idx.dead
    let f : Seg → Option Seg := fun seg =>
      match seg, optKey h with
      | .indexed sub, some (p, fa) =>
        if sub.arg = p then
          some (.indexed (sub.merge .append (searchLit idx.store skel) (searchStruct idx.store skel) fa id))
        else none
      | _, _ => none
    match modifySegOf t f idx.segs with
    | some segs => { idx' with segs := segs }
    | none => { idx' with segs := idx.segs ++ [standalone id h] }

/-- `asserta`: `prepend_compiled_clause`. -/
def addFront (idx : Index) (h : Head) : Index :=
  let id := idx.next
  let idx' : Index := { idx with store := (id, h) :: idx.store, next := id + 1 }
  match idx.live.head? with
  | none => { idx' with segs := [standalone id h] }
  | some t =>
    let skel := idx.live ++ idx.dead
    let f : Seg → Option Seg := fun seg =>
      match seg, optKey h with
      | .indexed sub, some (p, fa) =>
        if sub.arg = p then
          some (.indexed (sub.merge .prepend (searchLit idx.store skel) (searchStruct idx.store skel) fa id))
        else none
      | _, _ => none
    match modifySegOf t f idx.segs with
    | some segs => { idx' with segs := segs }
    | none => { idx' with segs := standalone id h :: idx.segs }

/-- `retract` on a dynamic predicate: `retract_dynamic_clause` stamps the clause dead and
moves it from the skeleton to `retracted_dynamic_clauses`; the index code is NOT touched. -/
def remove (idx : Index) (id : Nat) : Index :=
  if idx.live.contains id then { idx with dead := id :: idx.dead } else idx

/-! ## Removing a clause from the index of static extensible code (`remove_index`)

Used by `retract_clause` (the `'$clause'/2` store behind `clause/2` and `retract/1`,
re-consulting, undoing a failed load).  Only the single-subsequence part is modelled: the
clause leaves the inner chain and `remove_index` edits the switch tables. -/

/-- `remove_instruction_with_offset` on a third-level line, then the collapse of a line with
one remaining entry to a direct pointer. -/
def shrinkChoice (cs : List Nat) (id : Nat) : Ptr :=
  match cs.erase id with
  | [o] => .ext o
  | cs' => .choice cs'

/-- `remove_structure_index`. -/
def removeKey {κ : Type} [DecidableEq κ] (slot : Slot κ) (k : κ) (id : Nat) : Slot κ :=
  match slot with
  | .leaf .fail => .leaf .fail
  | .leaf (.ext _) => .leaf .fail
  | .leaf (.choice cs) => .leaf (shrinkChoice cs id)
  | .table t =>
    match tlookup t k with
    | some (.ext _) =>
      let t' := tremove t k
      if t'.isEmpty then .leaf .fail else .table t'
    | some (.choice cs) => .table (tinsert t k (shrinkChoice cs id))
    | some .fail => .table t
    | none => .table t

/-- `remove_list_index`. -/
def removeList (l : Ptr) (id : Nat) : Ptr :=
  match l with
  | .fail => .fail
  | .ext _ => .fail
  | .choice cs => shrinkChoice cs id

/-- `remove_index` for a clause filed under a structure or a list, or a constant without an
alternative key (`'$clause'/2` only ever files structures). -/
def Sub.unmerge (sub : Sub) (fa : FirstArg) (id : Nat) : Sub :=
  let sub := { sub with chain := sub.chain.erase id }
  match fa with
  | .const l => { sub with c := removeKey sub.c l.key id }
  | .struct n a => { sub with s := removeKey sub.s (n, a) id }
  | .list => { sub with l := removeList sub.l id }
  | .var => sub

end Scryer.Index
