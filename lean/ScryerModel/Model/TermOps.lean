import ScryerModel.Model.Unify
/-
C23 — executable term-level model of the term construction / inspection builtins
`functor/3`, `arg/3`, `=../2`, `copy_term/2`, `term_variables/2`, `ground/1`, `subsumes_term/2`.

Every builtin is a TOTAL function from its argument terms to a `Res`:
`ok σ` (success; σ is the triangular answer substitution, newest binding first, as in `Model/Unify`),
`fail`, `err formal` (the first argument of the thrown `error(Formal, _)`), or `cyclic` (the
unification performed inside the builtin has to bind a variable to a term containing it; with the
default flag `occurs_check=false` the implementation builds a rational tree at this point and
leaves the world of finite terms — the correspondence run does not compare such cases).

Mirrored branch by branch, in the order of the code:
* `functor3`  — `MachineState::try_functor` (src/machine/machine_state_impl.rs);
* `arg3`      — `MachineState::try_arg` (same file), REPAIRED behaviour (finding C23-1);
                `arg3Pinned` is the pinned behaviour (an `N ≥ 2^64` fails before `Term` is looked at);
* `univErrors`, `univ` — `univ_errors/3`, `univ_worker/3` (src/lib/builtins.pl);
* `canBeList`, `termVariables` — `can_be_list/2` + `'$term_variables'` (IndexSet insertion while
                iterating the term in preorder: `varSet`);
* `groundB`   — `ground_test` (preorder walk, stops at the first variable);
* `subsumes`  — `subsumes_term/2` in builtins.pl: `\+ \+ (term_variables(S,V1),
                unify_with_occurs_check(G,S), term_variables(V1,V2), V1 == V2)`.
Abstracted: `copy_term/2` is a renaming with fresh variables followed by the unification with the
second argument (the heap copier's forwarding/trail/partial-string phases are tied by the
correspondence run only); heap representation (Lis / PStrLoc / Str cells) is a `'.'/2` compound;
attributed variables are out of scope.  Fresh variables are the all-underscore names longer than
every name to avoid (so freshness is provable without reasoning about number printing).

Imports only `Model/Unify` (Lean core).
-/
namespace Scryer
namespace TermOps
open Scryer.Term Scryer.Unify

/-- `MAX_ARITY` (src/parser/ast.rs) = value of the flag `max_arity`. -/
def maxArity : Nat := 255

inductive Res where
  | ok (σ : Subst)
  | fail
  | err (formal : Term)
  | cyclic
  deriving Repr, Inhabited

def ofOutcome : Outcome → Res
  | .ok σ => .ok σ
  | .clash => .fail
  | .cyclic => .cyclic

/-- the unifications a builtin performs one after the other (`unify!`, `unify_fn!`, head
    unification), flag `occurs_check = false`. -/
def unifyAll (eqs : Eqs) : Res := ofOutcome (solve eqs [])

/-! ### error formals -/
def instErr : Term := .atom "instantiation_error"
def typeErr (ty : String) (culprit : Term) : Term := .str "type_error" [.atom ty, culprit]
def domErr (d : String) (culprit : Term) : Term := .str "domain_error" [.atom d, culprit]
def repErr (what : String) : Term := .str "representation_error" [.atom what]

/-! ### classification -/
def isVar : Term → Bool
  | .var _ => true
  | _ => false
def isAtom : Term → Bool
  | .atom _ => true
  | _ => false
def isCompound : Term → Bool
  | .str _ _ => true
  | _ => false
/-- `atomic/1` -/
def isAtomic : Term → Bool
  | .int _ => true
  | .rat _ _ => true
  | .flt _ => true
  | .atom _ => true
  | _ => false
/-- a number (the `Cons | Fixnum | F64Offset` arms). -/
def isNumber : Term → Bool
  | .int _ => true
  | .rat _ _ => true
  | .flt _ => true
  | _ => false

/-! ### fresh variables -/
def mkName (k : Nat) : String := String.ofList (List.replicate k '_')

def maxLen : List String → Nat
  | [] => 0
  | a :: l => max a.toList.length (maxLen l)

def freshFrom (base : Nat) : Nat → List String
  | 0 => []
  | n + 1 => mkName base :: freshFrom (base + 1) n

/-- `n` pairwise distinct names, none of them in `avoid`. -/
def freshNames (avoid : List String) (n : Nat) : List String :=
  freshFrom (maxLen avoid + 1) n

/-- `f(A1,…,An)`; with no arguments this is the atom `f` (`foo()` does not exist). -/
def mkStr (f : String) (args : List Term) : Term :=
  match args with
  | [] => .atom f
  | _ :: _ => .str f args

/-! ### functor/3 -/

/-- `functor(T, N, A)`.  `avoid`: names that the fresh variables of a constructed term must differ
    from (the variables of the rest of the query). -/
def functor3 (avoid : List String) (t n a : Term) : Res :=
  match t with
  | .var x =>
      if isVar n || isVar a then .err instErr            -- 8.5.1.3 a) b)
      else
        match a with
        | .int v =>
            if v > (maxArity : Int) then .err (repErr "max_arity")          -- f)
            else if v < 0 then .err (domErr "not_less_than_zero" a)         -- g)
            else
              match n with
              | .atom f =>
                  .ok [(x, mkStr f ((freshNames (x :: avoid) v.toNat).map Term.var))]
              | .str _ _ => .err (typeErr "atomic" n)                       -- c)
              | .var _ => .err instErr  -- not reached (excluded above)
              | _ =>
                  -- a number
                  if v = 0 then .ok [(x, n)] else .err (typeErr "atom" n)   -- e)
        | _ => .err (typeErr "integer" a)                                   -- d)
  | .str f args => unifyAll [(n, .atom f), (a, .int args.length)]
  | _ => unifyAll [(n, t), (a, .int 0)]

/-! ### arg/3 -/

/-- the `n`-th (1-based) element. -/
def nth1? (args : List Term) (v : Int) : Option Term :=
  if v ≤ 0 then none else args[v.toNat - 1]?

/-- `arg(N, T, X)` (repaired order: `N` is checked, then `T`, then the range of `N`). -/
def arg3 (n t x : Term) : Res :=
  match n with
  | .var _ => .err instErr                                        -- 8.5.2.3 a)
  | .int v =>
      if v < 0 then .err (domErr "not_less_than_zero" n)          -- e)
      else
        match t with
        | .var _ => .err instErr                                  -- b)
        | .str _ args =>
            match nth1? args v with
            | some u => unifyAll [(x, u)]
            | none => .fail
        | _ => .err (typeErr "compound" t)                        -- d)
  | _ => .err (typeErr "integer" n)                               -- c)

/-- the pinned `try_arg`: an `N` that does not fit `usize` fails before `T` is inspected. -/
def arg3Pinned (n t x : Term) : Res :=
  match n with
  | .int v => if v ≥ 2 ^ 64 then .fail else arg3 n t x
  | _ => arg3 n t x

/-! ### =../2 -/

/-- `'$skip_max_list'(N, _, L, R)` on a finite term: the elements of the maximal list prefix and
    what is left (`[]`, a variable, or something else). -/
def splitList : Term → List Term × Term
  | .str "." [h, t] => let r := splitList t; (h :: r.1, r.2)
  | t => ([], t)

def isNil : Term → Bool
  | .atom "[]" => true
  | _ => false

/-- `univ_errors/3`: `some formal` when it throws. -/
def univErrors (t l : Term) : Option Term :=
  let xs := (splitList l).1
  let r := (splitList l).2
  if isVar r then
    if isVar t then some instErr else none                              -- 8.5.3.3 a)
  else if !isNil r then some (typeErr "list" l)                         -- b)
  else
    match xs with
    | [] => if isVar t then some (domErr "non_empty_list" l) else none  -- f)
    | h :: tl =>
        if isVar h && isVar t then some instErr                         -- c)
        else if !tl.isEmpty && !isVar h && !isAtom h then some (typeErr "atom" h)   -- d)
        else if isCompound h && tl.isEmpty then some (typeErr "atomic" h)           -- e)
        else if isVar t && tl.length > maxArity then some (repErr "max_arity")      -- g)
        else none

/-- `Term =.. List`. -/
def univ (t l : Term) : Res :=
  match univErrors t l with
  | some e => .err e
  | none =>
    match t with
    | .var x =>
        -- construction: `functor(T, Name, Arity)`, then `arg(I, T, Arg_I)` for every I; the net
        -- effect is T = Name(Args…) (`univMirror` below runs the composition itself)
        match (splitList l).1 with
        | h :: args =>
            if x ∈ varsL args then .cyclic
            else
              match h, args with
              | .atom f, _ => .ok [(x, mkStr f args)]
              | _, [] => .ok [(x, h)]
              | _, _ :: _ => .err (typeErr "atom" h)   -- not reached (excluded by univErrors d)
        | [] => .fail                                  -- not reached
    | .str f args => unifyAll [(l, Term.ofList (.atom f :: args))]
    | _ => unifyAll [(l, Term.ofList [t])]

/-- construction mode of `univ_worker/3` as the code composes it: `functor/3` builds the skeleton
    with fresh arguments, `get_args/4` unifies the I-th argument cell with the I-th list element.
    (Executable cross-check for `univ`; the driver compares both.) -/
def univMirror (avoid : List String) (x : String) (h : Term) (args : List Term) : Res :=
  match functor3 avoid (.var x) h (.int args.length) with
  | .ok [(_, skel)] =>
      match skel with
      | .str _ fresh =>
          ofOutcome (solve (substE x skel (fresh.zip args)) [(x, skel)])
      | _ => .ok [(x, skel)]
  | r => r

/-! ### copy_term/2 -/

def insertNew (seen : List String) (x : String) : List String :=
  if x ∈ seen then seen else seen ++ [x]

mutual
/-- `variable_set`: preorder walk inserting every variable cell into an insertion-ordered set. -/
def varSet (seen : List String) : Term → List String
  | .var x => insertNew seen x
  | .str _ args => varSetL seen args
  | .int _ => seen
  | .rat _ _ => seen
  | .flt _ => seen
  | .atom _ => seen
def varSetL (seen : List String) : List Term → List String
  | [] => seen
  | t :: ts => varSetL (varSet seen t) ts
end

/-- the variables of `t`, each once, in depth-first left-to-right first-occurrence order. -/
def termVars (t : Term) : List String := varSet [] t

/-- the renameFn `xs[i] ↦ ys[i]`, identity elsewhere. -/
def renameFn (xs ys : List String) : String → Term := fun y =>
  match (xs.zip ys).lookup y with
  | some z => .var z
  | none => .var y

/-- the copy made by `copy_term/2`: every variable of `t` consistently replaced by a fresh one
    (not in `avoid`, not in `t`). -/
def copyOf (avoid : List String) (t : Term) : Term :=
  t.subst (renameFn (termVars t) (freshNames (avoid ++ termVars t) (termVars t).length))

/-- `copy_term(T, C)`. -/
def copyTerm (avoid : List String) (t c : Term) : Res :=
  unifyAll [(c, copyOf (avoid ++ c.vars) t)]

/-! ### term_variables/2, ground/1 -/

/-- `can_be_list/2` -/
def canBeList (l : Term) : Bool :=
  isVar l || isVar (splitList l).2 || isNil (splitList l).2

/-- `term_variables(T, Vs)` -/
def termVariables (t vs : Term) : Res :=
  if canBeList vs then unifyAll [(vs, Term.ofList ((termVars t).map Term.var))]
  else .err (typeErr "list" vs)

mutual
/-- `ground_test` (negated): no variable cell met in the preorder walk. -/
def groundB : Term → Bool
  | .var _ => false
  | .str _ args => groundL args
  | .int _ => true
  | .rat _ _ => true
  | .flt _ => true
  | .atom _ => true
def groundL : List Term → Bool
  | [] => true
  | t :: ts => groundB t && groundL ts
end

def ground1 (t : Term) : Res := if groundB t then .ok [] else .fail

/-! ### subsumes_term/2 -/

/-- `L == Vs` for a list of terms against a list of variables. -/
def eqVars : List Term → List String → Bool
  | [], [] => true
  | .var x :: ts, y :: ys => x == y && eqVars ts ys
  | _, _ => false

/-- the body of `subsumes_term/2`. -/
def subsumes (g s : Term) : Bool :=
  let sv := termVars s
  match unifyOC g s with
  | none => false
  | some σ =>
      let img := sv.map fun v => applyS σ (.var v)      -- SVs1 after the unification
      eqVars img (varSetL [] img)                        -- term_variables(SVs1, SVs2), SVs1 == SVs2

/-- `subsumes_term(G, S)`: the double negation undoes every binding. -/
def subsumesTerm (g s : Term) : Res := if subsumes g s then .ok [] else .fail

end TermOps
end Scryer
