import ScryerModel.Model.Quote
/-!
# Terms on tokens: canonical notation, operator notation (C15)

Built on the token layer of C55 (`Model/Quote.lean`: the mirrored lexer, quoting and spacing).

* `Tm`/`Args`: finite terms (atoms, integers, float literals kept as text, variables by name, compounds
  with at least one argument).
* `printC` / `parseC`: write_canonical's notation on tokens (functional notation only; `heap_print.rs`
  with `ignore_ops`: `format_struct`) and a deterministic reader for it.
* `writeCanon`: the same notation as printer items (`Item`), i.e. as text through `render`.
* `needsBracketing`: `heap_print.rs::needs_bracketing` mirrored; `printO`: operator notation on tokens with
  that bracketing decision (`handle_op_as_struct`/`enqueue_op`; operator atoms as operands are bracketed,
  as `print_struct` does; arguments of compounds and list elements are printed at 999).
* `readOps`: an operator-precedence reader (precedence climbing, ISO 6.3.4 with the usual
  disambiguation: an infix reading is preferred after a complete operand, a name is a prefix operator
  only when a term can follow). It has no theorem; it is the second reader of the differential run.
-/
namespace Scryer.Syntax
open Scryer.Quote Scryer.CharClass

mutual
inductive Tm where
  | atom (a : List Char)
  | int (n : Int)
  | flt (neg : Bool) (s : List Char)
  | var (s : List Char)
  | cmp (f : List Char) (a : Tm) (as : Args)
inductive Args where
  | nil
  | cons (t : Tm) (ts : Args)
end

mutual
def Tm.size : Tm → Nat
  | .cmp _ a as => 1 + a.size + as.size
  | _ => 1
def Args.size : Args → Nat
  | .nil => 1
  | .cons t ts => 1 + t.size + ts.size
end

def Args.toList : Args → List Tm
  | .nil => []
  | .cons t ts => t :: ts.toList

def Args.ofList : List Tm → Args
  | [] => .nil
  | t :: ts => .cons t (Args.ofList ts)

/-- the tokens of an atom: a name, or `[` `]`, or `{` `}` -/
def atomTokens (s : List Char) : List Tok :=
  if s = ['[', ']'] then [.punct '[', .punct ']']
  else if s = ['{', '}'] then [.punct '{', .punct '}'] else [.name s]

/-! ## canonical notation on tokens -/

mutual
def printC : Tm → List Tok
  | .atom a => atomTokens a
  | .int n => if n < 0 then [.name ['-'], .int n.natAbs] else [.int n.toNat]
  | .flt neg s => if neg then [.name ['-'], .flt s] else [.flt s]
  | .var s => [.var s]
  | .cmp f a as => atomTokens f ++ .openCT :: (printC a ++ printArgs as)
def printArgs : Args → List Tok
  | .nil => [.punct ')']
  | .cons t ts => .punct ',' :: (printC t ++ printArgs ts)
end

mutual
/-- read one canonical term from the front of the token list -/
def parseC : Nat → List Tok → Option (Tm × List Tok)
  | 0, _ => none
  | fuel + 1, toks =>
    match toks with
    | .int n :: r => some (.int n, r)
    | .flt s :: r => some (.flt false s, r)
    | .var s :: r => some (.var s, r)
    | .name s :: r =>
      match r with
      | .openCT :: r' => parseCmp fuel s r'
      | .int n :: r' => if s = ['-'] then some (.int (-(n : Int)), r') else some (.atom s, r)
      | .flt x :: r' => if s = ['-'] then some (.flt true x, r') else some (.atom s, r)
      | _ => some (.atom s, r)
    | .punct c :: .punct d :: r =>
      if c = '[' ∧ d = ']' then
        match r with
        | .openCT :: r' => parseCmp fuel ['[', ']'] r'
        | _ => some (.atom ['[', ']'], r)
      else if c = '{' ∧ d = '}' then
        match r with
        | .openCT :: r' => parseCmp fuel ['{', '}'] r'
        | _ => some (.atom ['{', '}'], r)
      else none
    | _ => none
/-- the arguments of a compound, from just after `f(` -/
def parseCmp : Nat → List Char → List Tok → Option (Tm × List Tok)
  | 0, _, _ => none
  | fuel + 1, f, toks =>
    match parseC fuel toks with
    | some (a, r1) =>
      match parseArgs fuel r1 with
      | some (as, r2) => some (.cmp f a as, r2)
      | none => none
    | none => none
/-- after an argument: `,` and another argument, or `)` -/
def parseArgs : Nat → List Tok → Option (Args × List Tok)
  | 0, _ => none
  | fuel + 1, toks =>
    match toks with
    | .punct c :: r =>
      if c = ')' then some (.nil, r)
      else if c = ',' then
        match parseC fuel r with
        | some (t, r1) =>
          match parseArgs fuel r1 with
          | some (ts, r2) => some (.cons t ts, r2)
          | none => none
        | none => none
      else none
    | _ => none
end

/-- read a whole token list (ending with the end token) as one canonical term -/
def readCanonToks (toks : List Tok) : Option Tm :=
  match parseC (2 * toks.length + 2) toks with
  | some (t, [.endTok]) => some t
  | some (t, []) => some t
  | _ => none

/-! ## canonical notation as printer items (text) -/

mutual
def writeCanon (u : UC) : Tm → List Item
  | .atom a => [.tok (printAtom u true a) (printAtom u true a)]
  | .int n =>
    if n < 0 then [.tok ('-' :: decDigits n.natAbs) ('-' :: decDigits n.natAbs)]
    else [.tok (decDigits n.toNat) (decDigits n.toNat)]
  | .flt neg s => [.tok (if neg then '-' :: s else s) (if neg then '-' :: s else s)]
  | .var s => [.tok s s]
  | .cmp f a as => .tok (printAtom u true f) (printAtom u true f) :: .ch '(' :: (writeCanon u a ++ writeCanonArgs u as)
def writeCanonArgs (u : UC) : Args → List Item
  | .nil => [.ch ')']
  | .cons t ts => .tok [','] [','] :: (writeCanon u t ++ writeCanonArgs u ts)
end

def canonText (u : UC) (t : Tm) : List Char := (render u true (writeCanon u t)).text

def readCanon (u : UC) (cs : List Char) : Option Tm :=
  match tokens u cs with
  | some ts => readCanonToks ts
  | none => none

/-! ## operator tables and `needs_bracketing` -/

inductive Spec where
  | xfx | xfy | yfx | xf | yf | fx | fy
  deriving DecidableEq, Repr

def Spec.isPrefix : Spec → Bool | .fx | .fy => true | _ => false
def Spec.isPostfix : Spec → Bool | .xf | .yf => true | _ => false
def Spec.isInfix : Spec → Bool | .xfx | .xfy | .yfx => true | _ => false
/-- `is_strict_right`: the right argument must have a lower priority -/
def Spec.strictRight : Spec → Bool | .xfx | .yfx | .fx => true | _ => false
/-- `is_strict_left` -/
def Spec.strictLeft : Spec → Bool | .xfx | .xfy | .xf => true | _ => false

/-- `OpDesc`: priority and specifier -/
structure OpDesc where
  prec : Nat
  spec : Spec
  deriving DecidableEq, Repr

/-- the operator table: lookups by fixity (`fetch_op_spec`); priority-0 entries count as absent -/
structure Ops where
  pre : List Char → Option OpDesc
  inf : List Char → Option OpDesc
  post : List Char → Option OpDesc

def Ops.isOp (o : Ops) (a : List Char) : Bool := (o.pre a).isSome || (o.inf a).isSome || (o.post a).isSome

/-- maximal priorities (left, right) of the arguments of an operator, ISO 6.3.4 -/
def argMax (d : OpDesc) : Nat × Nat :=
  match d.spec with
  | .xfx => (d.prec - 1, d.prec - 1) | .xfy => (d.prec - 1, d.prec) | .yfx => (d.prec, d.prec - 1)
  | .xf => (d.prec - 1, 0) | .yf => (d.prec, 0) | .fx => (0, d.prec - 1) | .fy => (0, d.prec)

/-- `DirectedOp`: `left` = the operator stands to the left of the child being printed (the child is
    the right operand, or the operand of a prefix operator); `right` = the child is the left operand. -/
inductive DirectedOp where
  | left (name : List Char) (d : OpDesc)
  | right (name : List Char) (d : OpDesc)

/-- `heap_print.rs::needs_bracketing(child_desc, op)` -/
def needsBracketing (child : OpDesc) : DirectedOp → Bool
  | .left name d =>
    if name = ['-'] ∧ d.spec.isPrefix ∧ (child.spec.isPostfix ∨ child.spec.isInfix) then true
    else child.prec > d.prec || (child.prec == d.prec && d.spec.strictRight)
  | .right _ d =>
    if child.prec > d.prec || (child.prec == d.prec && d.spec.strictLeft) then true
    else if (d.spec.isPostfix || d.spec.isInfix) && !child.spec.isPostfix then
      (d != child) && child.prec == d.prec
    else false

/-! ## an operator-precedence reader (no theorem; second reader of the differential run) -/

def mkCmp (f : List Char) : List Tm → Tm
  | [] => .atom f
  | a :: as => .cmp f a (Args.ofList as)

def mkList (items : List Tm) (tail : Tm) : Tm :=
  items.foldr (fun x t => .cmp ['.'] x (.cons t .nil)) tail

/-- can a term start with this token? -/
def termStart : List Tok → Bool
  | [] => false
  | .endTok :: _ => false
  | .punct c :: _ => c == '(' || c == '[' || c == '{'
  | _ => true

/-- the name an infix/postfix position sees: a name token, or `,` / `|` -/
def opName : Tok → Option (List Char)
  | .name s => some s
  | .punct c => if c == ',' then some [','] else if c == '|' then some ['|'] else none
  | _ => none

mutual
/-- a term of priority at most `maxP` -/
def parseT (o : Ops) : Nat → Nat → List Tok → Option (Tm × Nat × List Tok)
  | 0, _, _ => none
  | fuel + 1, maxP, toks =>
    match parsePrimary o fuel maxP toks with
    | some (t, p, r) => parseInfix o fuel t p maxP r
    | none => none
def parsePrimary (o : Ops) : Nat → Nat → List Tok → Option (Tm × Nat × List Tok)
  | 0, _, _ => none
  | fuel + 1, maxP, toks =>
    match toks with
    | .int n :: r => some (.int n, 0, r)
    | .flt s :: r => some (.flt false s, 0, r)
    | .var s :: r => some (.var s, 0, r)
    | .str s :: r => some (mkList (s.map fun c => .atom [c]) (.atom ['[', ']']), 0, r)
    | .openCT :: r => parseParen o fuel r
    | .punct c :: r =>
      if c = '(' then parseParen o fuel r
      else if c = '[' then
        match r with
        | .punct ']' :: r' =>
          match r' with
          | .openCT :: r'' =>
            match parseArgList o fuel r'' with
            | some (as, r3) => some (mkCmp ['[', ']'] as, 0, r3)
            | none => none
          | _ => some (.atom ['[', ']'], 0, r')
        | _ =>
          match parseArgSeq o fuel r with
          | some (items, r1) =>
            match r1 with
            | .punct ']' :: r2 => some (mkList items (.atom ['[', ']']), 0, r2)
            | .punct '|' :: r2 =>
              match parseT o fuel 999 r2 with
              | some (tl, _, .punct ']' :: r3) => some (mkList items tl, 0, r3)
              | _ => none
            | _ => none
          | none => none
      else if c = '{' then
        match r with
        | .punct '}' :: r' =>
          match r' with
          | .openCT :: r'' =>
            match parseArgList o fuel r'' with
            | some (as, r3) => some (mkCmp ['{', '}'] as, 0, r3)
            | none => none
          | _ => some (.atom ['{', '}'], 0, r')
        | _ =>
          match parseT o fuel 1200 r with
          | some (t, _, .punct '}' :: r2) => some (.cmp ['{', '}'] t .nil, 0, r2)
          | _ => none
      else none
    | .name s :: r =>
      match r with
      | .openCT :: r' =>
        match parseArgList o fuel r' with
        | some (as, r2) => some (mkCmp s as, 0, r2)
        | none => none
      | _ =>
        let lit : Option (Tm × Nat × List Tok) :=
          if s = ['-'] then
            match r with
            | .int n :: r' => some (.int (-(n : Int)), 0, r')
            | .flt x :: r' => some (.flt true x, 0, r')
            | _ => none
          else none
        match lit with
        | some x => some x
        | none =>
          match o.pre s with
          | some d =>
            if termStart r && d.prec ≤ maxP && !(isInfixNext o r) then
              match parseT o fuel (argMax d).2 r with
              | some (x, _, r2) => some (.cmp s x .nil, d.prec, r2)
              | none => none
            else some (.atom s, 0, r)
          | none => some (.atom s, 0, r)
    | _ => none
/-- is the next token an infix operator that is not also something a term can start with? -/
def isInfixNext (o : Ops) : List Tok → Bool
  | .name s :: r => (o.inf s).isSome && (o.pre s).isNone && !(match r with | .openCT :: _ => true | _ => false)
      && termStart r
  | _ => false
def parseParen (o : Ops) : Nat → List Tok → Option (Tm × Nat × List Tok)
  | 0, _ => none
  | fuel + 1, toks =>
    match parseT o fuel 1200 toks with
    | some (t, _, .punct ')' :: r) => some (t, 0, r)
    | _ => none
/-- arguments at 999 separated by commas, then `)` -/
def parseArgList (o : Ops) : Nat → List Tok → Option (List Tm × List Tok)
  | 0, _ => none
  | fuel + 1, toks =>
    match parseArgSeq o fuel toks with
    | some (as, .punct ')' :: r) => some (as, r)
    | _ => none
/-- one or more terms at 999 separated by commas -/
def parseArgSeq (o : Ops) : Nat → List Tok → Option (List Tm × List Tok)
  | 0, _ => none
  | fuel + 1, toks =>
    match parseT o fuel 999 toks with
    | some (t, _, r) =>
      match r with
      | .punct ',' :: r' =>
        match parseArgSeq o fuel r' with
        | some (ts, r2) => some (t :: ts, r2)
        | none => none
      | _ => some ([t], r)
    | none => none
def parseInfix (o : Ops) : Nat → Tm → Nat → Nat → List Tok → Option (Tm × Nat × List Tok)
  | 0, _, _, _, _ => none
  | fuel + 1, left, leftP, maxP, toks =>
    match toks with
    | tk :: r =>
      match opName tk with
      | some s =>
        match o.inf s with
        | some d =>
          if d.prec ≤ maxP && leftP ≤ (argMax d).1 && termStart r then
            match parseT o fuel (argMax d).2 r with
            | some (right, _, r2) => parseInfix o fuel (.cmp s left (.cons right .nil)) d.prec maxP r2
            | none => none
          else some (left, leftP, toks)
        | none =>
          match o.post s with
          | some d =>
            if d.prec ≤ maxP && leftP ≤ (argMax d).1 then
              parseInfix o fuel (.cmp s left .nil) d.prec maxP r
            else some (left, leftP, toks)
          | none => some (left, leftP, toks)
      | none => some (left, leftP, toks)
    | [] => some (left, leftP, toks)
end

/-- read a token list (ending with the end token) as one term in operator notation -/
def readOpsToks (o : Ops) (toks : List Tok) : Option Tm :=
  match parseT o (4 * toks.length + 8) 1200 toks with
  | some (t, _, [.endTok]) => some t
  | some (t, _, []) => some t
  | _ => none

def readOps (u : UC) (o : Ops) (cs : List Char) : Option Tm :=
  match tokens u cs with
  | some ts => readOpsToks o ts
  | none => none

end Scryer.Syntax
