import ScryerModel.Model.Heap
import ScryerModel.Model.Utf8
/-!
# Strings as character lists (property C20)

Two levels.

**Byte level** — plain-byte mirrors of the code that reads a string segment laid out by
`push_pstr_segment` (text bytes, 1–8 zero bytes of sentinel, a further zero cell when the sentinel
is a single byte, then the tail cell):

* `scanLen`, `scanTailIdx` — `scan_slice_to_str` (string length up to the first zero byte; the
  cell index of the tail computed from the ADDRESS of the zero byte),
* `lastCharAndTail` — `Heap::last_str_char_and_tail` (the head/tail decomposition used by
  `partial_string_to_pdl`, i.e. by every unification of a string with a list cell),
* `segChars` — `PStrSegmentIter` (`Heap::char_iter`),
* `cmpBytes` — `compare_pstr_slices` (first position where the bytes differ or one is zero; the
  four outcomes of `calculate_result`). The Less/Greater outcome is abstracted to "compare the
  bytes at that position" (the code compares 7-byte `utf8_chunks` windows around it).

**Representation level** — `Rep`: the three ways the heap represents a list of characters
(`Lis` cell with a character head, `PStrLoc` = a segment entered at a character offset, anything
else = the tail), `denote : Rep → List Nat × Tail`, and the string-specific mechanisms on `Rep`:
`step` (head/tail decomposition), `walk` (`HeapPStrIter::step`), `cmpSeg` (`compare_pstr_segments`
on two segments), `unify` (`unify_list` / `unify_partial_string` with the pdl), `compare`
(`ParallelHeapIter` list arms), `copy` (`copy_partial_string` + `copy_pstr_within`: the copy of a
`PStrLoc` is a fresh segment holding the suffix).
-/
namespace Scryer.PStr
open Scryer.Heap (pstrSentinelLength cellIndex heapIndex nextMultipleOf8 pstrTailIdx)

/-! ## byte level -/

/-- UTF-8 text of a list of code points. -/
def utf8 : List Nat → List Nat
  | [] => []
  | c :: cs => Scryer.Utf8.encode c ++ utf8 cs

/-- `position(|b| *b == 0).unwrap_or(len)` -/
def scanLen : List Nat → Nat
  | [] => 0
  | b :: r => if b = 0 then 0 else scanLen r + 1

/-- `scan_slice_to_str(slice).tail_idx + cell_index!(loc)` for the slice that starts at heap byte
`loc` (the heap base is 8-aligned, so the address of the zero byte is congruent to `loc + len`). -/
def scanTailIdx (loc : Nat) (slice : List Nat) : Nat :=
  let n := scanLen slice
  let sent := pstrSentinelLength (loc + n)
  cellIndex loc + cellIndex (nextMultipleOf8 (n + sent) + if sent ≤ 1 then heapIndex 1 else 0)

/-- cells a segment of `L` text bytes occupies (`push_pstr_segment`'s `cells_written`). -/
def segCells (L : Nat) : Nat := if L % 8 = 7 then L / 8 + 2 else L / 8 + 1

/-- what `push_pstr_segment` writes for the text bytes `bs` (at any cell boundary). -/
def segLayout (bs : List Nat) : List Nat :=
  bs ++ List.replicate (segCells bs.length * 8 - bs.length) 0

/-- successor of a character inside a segment: the next character of the same segment (byte
location) or the tail cell (cell index). -/
inductive Succ where
  | pstr (loc : Nat)
  | tail (idx : Nat)
  deriving DecidableEq, Repr

/-- `Heap::last_str_char_and_tail(loc)`; `slice` = heap bytes from `loc` on. `none`: the bytes are
not valid UTF-8 (outside the model: the code uses `from_utf8_unchecked`). -/
def lastCharAndTail (loc : Nat) (slice : List Nat) : Option (Nat × Succ) :=
  match Scryer.Utf8.decodeFirst slice with
  | .ok cp n =>
    match slice.drop n with
    | [] => some (cp, .tail (scanTailIdx loc slice))
    | b :: _ => if b = 0 then some (cp, .tail (scanTailIdx loc slice)) else some (cp, .pstr (loc + n))
  | _ => none

/-- `PStrSegmentIter`: characters up to the first NUL character. -/
def segChars : Nat → List Nat → List Nat
  | 0, _ => []
  | fuel + 1, slice =>
    match Scryer.Utf8.decodeFirst slice with
    | .ok cp n => if cp = 0 then [] else cp :: segChars fuel (slice.drop n)
    | _ => []

/-- `PStrContinuable` (offsets relative to the slice start / tail) -/
inductive Cont where
  | off (pos : Nat)
  | tail
  deriving DecidableEq, Repr

inductive SegCmp where
  | less | greater
  | cont (a b : Cont)
  deriving DecidableEq, Repr

/-- `compare_pstr_slices`: `pos` = bytes already found equal and non-zero. A slice that ends is
read as zero (`slice.get(pos).unwrap_or(0)`). -/
def cmpBytes : List Nat → List Nat → Nat → SegCmp
  | [], [], _ => .cont .tail .tail
  | [], y :: _, pos => if y = 0 then .cont .tail .tail else .cont .tail (.off pos)
  | x :: _, [], pos => if x = 0 then .cont .tail .tail else .cont (.off pos) .tail
  | x :: a, y :: b, pos =>
    if x = 0 then (if y = 0 then .cont .tail .tail else .cont .tail (.off pos))
    else if y = 0 then .cont (.off pos) .tail
    else if x = y then cmpBytes a b (pos + 1)
    else if x < y then .less else .greater

/-! ## representation level -/

/-- what ends a list: `[]`, an unbound variable, anything else (atom, number, compound …). -/
inductive Tail where
  | nil
  | var (v : Nat)
  | other (t : Nat)
  deriving DecidableEq, Repr

/-- heap representations of a list of characters. `seg cs k r`: a `PStrLoc` pointing at character
index `k` of a segment whose text is `cs`, with tail cell `r`. -/
inductive Rep where
  | tl (t : Tail)
  | lis (c : Nat) (r : Rep)
  | seg (cs : List Nat) (k : Nat) (r : Rep)
  deriving Repr

/-- the abstraction function: the characters and the final tail. -/
def denote : Rep → List Nat × Tail
  | .tl t => ([], t)
  | .lis c r => (c :: (denote r).1, (denote r).2)
  | .seg cs k r => (cs.drop k ++ (denote r).1, (denote r).2)

/-- a `PStrLoc` always points at a character (never at the sentinel). -/
def WF : Rep → Prop
  | .tl _ => True
  | .lis _ r => WF r
  | .seg cs k r => k < cs.length ∧ WF r

/-- number of cells/characters still to walk (fuel for the loops below). -/
def size : Rep → Nat
  | .tl _ => 1
  | .lis _ r => size r + 1
  | .seg cs k r => size r + (cs.length - k) + 1

/-- head/tail decomposition: `Lis` — head cell and cell `h+1`; `PStrLoc` —
`last_str_char_and_tail`: the character at the offset and either the `PStrLoc` of the next
character or the tail cell. -/
def step : Rep → Option (Nat × Rep)
  | .tl _ => none
  | .lis c r => some (c, r)
  | .seg cs k r =>
    match cs.drop k with
    | [] => none
    | c :: rest => some (c, if rest = [] then r else .seg cs (k + 1) r)

/-- `HeapPStrIter`: a `PStrLoc` yields the whole remaining slice and continues at the tail cell; a
`Lis` cell yields its character. Result: the text and where the walk stopped. -/
def walk : Rep → List Nat × Tail
  | .tl t => ([], t)
  | .lis c r => (c :: (walk r).1, (walk r).2)
  | .seg cs k r => (cs.drop k ++ (walk r).1, (walk r).2)

/-- character-level `compare_pstr_segments`: strip the common prefix. -/
def cmpSeg : List Nat → List Nat → Nat → SegCmp
  | [], [], _ => .cont .tail .tail
  | [], _ :: _, pos => .cont .tail (.off pos)
  | _ :: _, [], pos => .cont (.off pos) .tail
  | x :: a, y :: b, pos =>
    if x = y then cmpSeg a b (pos + 1) else if x < y then .less else .greater

/-- `PStrContinuable::offset_by` on `Rep`. -/
def contOf (cs : List Nat) (k : Nat) (r : Rep) : Cont → Rep
  | .off pos => .seg cs (k + pos) r
  | .tail => r

/-- result of unifying two character lists: failure, or success with at most one tail binding. -/
inductive URes where
  | fail
  | ok (b : Option (Nat × Rep))
  | stuck
  deriving Repr

/-- binding a variable tail (`unify_partial_string`'s `value.as_var()` arm / `bind`). -/
def bindTail (t : Tail) (r : Rep) : URes :=
  match t, r with
  | .var v, .tl (.var w) => if v = w then .ok none else .ok (some (v, r))
  | .var v, _ => .ok (some (v, r))
  | .nil, .tl .nil => .ok none
  | .nil, .tl (.var w) => .ok (some (w, .tl .nil))
  | .other a, .tl (.other b) => if a = b then .ok none else .fail
  | .other a, .tl (.var w) => .ok (some (w, .tl (.other a)))
  | _, _ => .fail

/-- the unification loop over the pdl restricted to two character lists: `unify_list` (Lis/Lis),
`unify_partial_string` with `partial_string_to_pdl` (PStrLoc/Lis in either order) and
`compare_pstr_segments` (PStrLoc/PStrLoc). -/
def unify : Nat → Rep → Rep → URes
  | 0, _, _ => .stuck
  | fuel + 1, r1, r2 =>
    match r1, r2 with
    | .tl t, r => bindTail t r
    | r, .tl t => bindTail t r
    | .lis c a, .lis d b => if c = d then unify fuel a b else .fail
    | .seg cs k r, .lis d b =>
      match step (.seg cs k r) with
      | some (c, s) => if c = d then unify fuel s b else .fail
      | none => .stuck
    | .lis d b, .seg cs k r =>
      match step (.seg cs k r) with
      | some (c, s) => if c = d then unify fuel b s else .fail
      | none => .stuck
    | .seg cs1 k1 r1', .seg cs2 k2 r2' =>
      match cmpSeg (cs1.drop k1) (cs2.drop k2) 0 with
      -- (the code pushes the pair in the other order; only the orientation of a variable-variable
      -- binding depends on it)
      | .cont v1 v2 => unify fuel (contOf cs1 k1 r1' v1) (contOf cs2 k2 r2' v2)
      | _ => .fail

/-- specification: unification of two character lists with tails. -/
def unifyList : List Nat → Tail → List Nat → Tail → URes
  | [], t1, l2, t2 => bindTail t1 (l2.foldr .lis (.tl t2))
  | l1, t1, [], t2 => bindTail t2 (l1.foldr .lis (.tl t1))
  | x :: a, t1, y :: b, t2 => if x = y then unifyList a t1 b t2 else .fail

/-- the denotation of a unification result (bindings compared up to representation). -/
def URes.den : URes → Option (Option (Nat × (List Nat × Tail)))
  | .fail => none
  | .stuck => none
  | .ok none => some none
  | .ok (some (v, r)) => some (some (v, denote r))

def URes.isStuck : URes → Bool
  | .stuck => true
  | _ => false

/-- standard order of two tails as far as the model goes (`Var < Atom([]) …` is C13's business):
only equality is decided here. -/
inductive CRes where
  | lt | gt
  | tails (t1 t2 : Tail)     -- equal characters: the order of the tails decides
  | endL (t1 : Tail)          -- left list ended first, right has a further list cell
  | endR (t2 : Tail)
  | stuck
  deriving DecidableEq, Repr

/-- comparison loop (`ParallelHeapIter` list arms: Lis/Lis heads then tails; PStrLoc/Lis by
`last_str_char_and_tail`; PStrLoc/PStrLoc by `compare_pstr_slices`). -/
def compare : Nat → Rep → Rep → CRes
  | 0, _, _ => .stuck
  | fuel + 1, r1, r2 =>
    match r1, r2 with
    | .tl t1, .tl t2 => .tails t1 t2
    | .tl t1, _ => .endL t1
    | _, .tl t2 => .endR t2
    | .lis c a, .lis d b => if c = d then compare fuel a b else if c < d then .lt else .gt
    | .seg cs k r, .lis d b =>
      match step (.seg cs k r) with
      | some (c, s) => if c = d then compare fuel s b else if c < d then .lt else .gt
      | none => .stuck
    | .lis d b, .seg cs k r =>
      match step (.seg cs k r) with
      | some (c, s) => if d = c then compare fuel b s else if d < c then .lt else .gt
      | none => .stuck
    | .seg cs1 k1 r1', .seg cs2 k2 r2' =>
      match cmpSeg (cs1.drop k1) (cs2.drop k2) 0 with
      | .cont v1 v2 => compare fuel (contOf cs1 k1 r1' v1) (contOf cs2 k2 r2' v2)
      | .less => .lt
      | .greater => .gt

def compareList : List Nat → Tail → List Nat → Tail → CRes
  | [], t1, [], t2 => .tails t1 t2
  | [], t1, _ :: _, _ => .endL t1
  | _ :: _, _, [], t2 => .endR t2
  | x :: a, t1, y :: b, t2 => if x = y then compareList a t1 b t2 else if x < y then .lt else .gt

/-- `copy_partial_string` + `copy_pstr_within`: the copy of a `PStrLoc` is a NEW segment that holds
the bytes from the offset on (offset 0 in the copy); Lis cells are copied cell by cell. -/
def copy : Rep → Rep
  | .tl t => .tl t
  | .lis c r => .lis c (copy r)
  | .seg cs k r => .seg (cs.drop k) 0 (copy r)

end Scryer.PStr
