import ScryerModel.Model.Term
import ScryerModel.Model.ArithInt
/-
Reference semantics of ISO Prolog control (depth-first, left-to-right SLD resolution with cut,
if-then-else, negation as failure, call/N, catch/throw, findall) as a total, fuel-indexed
"answer list with cut flag" interpreter.  Shared library (C07, C08, C12, C25, C39, C40).

* A *state* `St` is a triangular substitution (association list, newest binding first) plus the
  fresh-name counter of the current derivation branch.  Every answer carries its own counter, so
  the names chosen on one branch never depend on what happened on another branch (this is what
  makes the control laws hold as equalities, not just up to renaming).
* `solve fuel prog goal s : Res` – the answers in the order Prolog delivers them, whether a cut
  belonging to the enclosing clause body was executed, and the uncaught ball (raised *after* the
  listed answers were delivered).  `oof = true` means the fuel (a bound on the nesting depth of the
  evaluation) did not suffice; then the result is the canonical `Res.oofR` and carries no
  information.  `oof` is strict: a sub-run that is out of fuel makes the whole run out of fuel.
* Unification is *without* occurs check as far as answers are concerned, but a binding that would
  create a cyclic term (ISO: "subject to occurs check", undefined) is reported as out-of-model
  (`none`, same channel as out of fuel): the model does not speak about such programs.
* Everything is structurally recursive on the fuel.  Imports only Model.Term and Model.ArithInt.
-/
namespace Scryer.Solve
open Scryer

abbrev Subst := List (String × Term)

structure St where
  σ : Subst
  ctr : Nat
  deriving Repr, Inhabited

structure Clause where
  head : Term
  body : Term
  deriving Repr, Inhabited

abbrev Prog := List Clause

structure Res where
  /-- answers, in the order Prolog delivers them -/
  sols : List St
  /-- a cut belonging to the enclosing clause body was executed -/
  cut : Bool
  /-- uncaught ball (already copied: resolved + renamed) and the counter after the copy;
      raised after `sols` were delivered -/
  exc : Option (Term × Nat)
  /-- out of fuel / out of model; the other fields are then meaningless (canonically empty) -/
  oof : Bool
  deriving Repr, Inhabited

namespace Res
def oofR : Res := ⟨[], false, none, true⟩
def none : Res := ⟨[], false, .none, false⟩
def one (s : St) : Res := ⟨[s], false, .none, false⟩
def throw (e : Term × Nat) : Res := ⟨[], false, some e, false⟩
end Res

/-! ### substitutions -/

def lookup : Subst → String → Option Term
  | [], _ => none
  | (w, t) :: rest, v => if w == v then some t else lookup rest v

/-- dereference the root of a term (`none` = out of fuel). -/
def walk : Nat → Subst → Term → Option Term
  | 0, _, _ => none
  | n+1, σ, .var v =>
      match lookup σ v with
      | some t => walk n σ t
      | none => some (.var v)
  | _+1, _, t => some t

mutual
/-- apply a substitution exhaustively. -/
def resolve : Nat → Subst → Term → Option Term
  | 0, _, _ => none
  | n+1, σ, .var v =>
      match lookup σ v with
      | some t => resolve n σ t
      | none => some (.var v)
  | n+1, σ, .str f args =>
      match resolveList n σ args with
      | some as => some (.str f as)
      | none => none
  | _+1, _, t => some t
def resolveList : Nat → Subst → List Term → Option (List Term)
  | 0, _, _ => none
  | _+1, _, [] => some []
  | n+1, σ, t :: ts =>
      match resolve n σ t with
      | none => none
      | some t' =>
        match resolveList n σ ts with
        | none => none
        | some ts' => some (t' :: ts')
end

mutual
/-- append a suffix to every variable name (renaming apart / copying). -/
def rename (sfx : String) : Term → Term
  | .var v => .var (v ++ sfx)
  | .str f args => .str f (renameList sfx args)
  | t => t
def renameList (sfx : String) : List Term → List Term
  | [] => []
  | t :: ts => rename sfx t :: renameList sfx ts
end

def sfx (c : Nat) : String := "_" ++ toString c

mutual
/-- does variable `v` occur in `t` under `σ`? -/
def occurs : Nat → Subst → String → Term → Option Bool
  | 0, _, _, _ => none
  | n+1, σ, v, .var w =>
      match lookup σ w with
      | some t => occurs n σ v t
      | none => some (w == v)
  | n+1, σ, v, .str _ args => occursList n σ v args
  | _+1, _, _, _ => some false
def occursList : Nat → Subst → String → List Term → Option Bool
  | 0, _, _, _ => none
  | _+1, _, _, [] => some false
  | n+1, σ, v, t :: ts =>
      match occurs n σ v t with
      | none => none
      | some true => some true
      | some false => occursList n σ v ts
end

/-- identity of constants (atoms by name, integers by value, other numbers structurally). -/
def constEq : Term → Term → Bool
  | .atom a, .atom b => a == b
  | .int a, .int b => a == b
  | .rat a b, .rat c d => a == c && b == d
  | .flt a, .flt b => a == b
  | _, _ => false

/-- bind `v` (unbound in `σ`) to the dereferenced term `t`; `none` if that would create a cycle. -/
def bindVar (n : Nat) (σ : Subst) (v : String) (t : Term) : Option (Option Subst) :=
  match occurs n σ v t with
  | none => none
  | some true => none
  | some false => some (some ((v, t) :: σ))

mutual
/-- `none` = out of fuel / cyclic; `some none` = not unifiable; `some (some σ')` = extended. -/
def unify : Nat → Subst → Term → Term → Option (Option Subst)
  | 0, _, _, _ => none
  | n+1, σ, a, b =>
      match walk n σ a with
      | none => none
      | some a' =>
        match walk n σ b with
        | none => none
        | some b' =>
          match a', b' with
          | .var v, .var w => if v == w then some (some σ) else some (some ((v, .var w) :: σ))
          | .var v, t => bindVar n σ v t
          | t, .var w => bindVar n σ w t
          | .str f as, .str g bs =>
              if f == g && as.length == bs.length then unifyList n σ as bs else some none
          | x, y => some (if constEq x y then some σ else none)
def unifyList : Nat → Subst → List Term → List Term → Option (Option Subst)
  | 0, _, _, _ => none
  | _+1, σ, [], [] => some (some σ)
  | n+1, σ, a :: as, b :: bs =>
      match unify n σ a b with
      | none => none
      | some none => some none
      | some (some σ') => unifyList n σ' as bs
  | _+1, _, _, _ => some none
end

/-! ### error terms -/

def ctxAtom : Term := .atom "$ctx"
def mkError (formal : Term) : Term := .str "error" [formal, ctxAtom]
def instErr : Term := .atom "instantiation_error"
def typeErr (kind : String) (culprit : Term) : Term := .str "type_error" [.atom kind, culprit]
def domErr (kind : String) (culprit : Term) : Term := .str "domain_error" [.atom kind, culprit]
def evalErr (kind : String) : Term := .str "evaluation_error" [.atom kind]
def indicator (name : String) (arity : Nat) : Term := .str "/" [.atom name, .int arity]
def existErr (name : String) (arity : Nat) : Term :=
  .str "existence_error" [.atom "procedure", indicator name arity]

/-! ### arithmetic (integers only, through `Scryer.Arith`) -/

inductive EvalR where
  | ok (v : Arith.Num)
  | err (formal : Term)
  | oof
  deriving Repr

def unOp? : String → Option Arith.UnOp
  | "-" => some .neg | "+" => some .plus | "abs" => some .abs | "sign" => some .sign
  | "\\" => some .bnot | _ => none

def binOp? : String → Option Arith.BinOp
  | "+" => some .add | "-" => some .sub | "*" => some .mul | "//" => some .idiv
  | "div" => some .div | "mod" => some .mod | "rem" => some .rem | "gcd" => some .gcd
  | "min" => some .min | "max" => some .max | "^" => some .pow | "<<" => some .shl
  | ">>" => some .shr | "/\\" => some .band | "\\/" => some .bor | "xor" => some .bxor
  | _ => none

def ofArithR : Arith.R → EvalR
  | .ok v => .ok v
  | .error .zeroDivisor => .err (evalErr "zero_divisor")
  | .error .undefined => .err (evalErr "undefined")
  | .error (.typeFloat c) => .err (typeErr "float" (.int c))

/-- evaluate an arithmetic expression term left to right; errors surface in evaluation order.
    Rationals and floats are outside the model (`oof`). -/
def evalArith : Nat → Subst → Term → EvalR
  | 0, _, _ => .oof
  | n+1, σ, t =>
      match walk n σ t with
      | none => .oof
      | some (.var _) => .err instErr
      | some (.int v) => .ok (Arith.lit v)
      | some (.atom a) => .err (typeErr "evaluable" (indicator a 0))
      | some (.str f [x]) =>
          match unOp? f with
          | none => .err (typeErr "evaluable" (indicator f 1))
          | some op =>
            match evalArith n σ x with
            | .ok a => ofArithR (Arith.applyUn op a)
            | e => e
      | some (.str f [x, y]) =>
          match binOp? f with
          | none => .err (typeErr "evaluable" (indicator f 2))
          | some op =>
            match evalArith n σ x with
            | .ok a =>
              match evalArith n σ y with
              | .ok b => ofArithR (Arith.applyBin op a b)
              | e => e
            | e => e
      | some (.str f args) => .err (typeErr "evaluable" (indicator f args.length))
      | some _ => .oof

def cmpOp? : String → Option (Int → Int → Bool)
  | "=:=" => some (fun a b => a == b)
  | "=\\=" => some (fun a b => a != b)
  | "<" => some (fun a b => decide (a < b))
  | "=<" => some (fun a b => decide (a ≤ b))
  | ">" => some (fun a b => decide (a > b))
  | ">=" => some (fun a b => decide (a ≥ b))
  | _ => none

/-! ### deterministic builtins -/

inductive Det where
  | fail
  | ok (σ : Subst)
  | err (formal : Term)
  | oof
  | none     -- not a builtin
  deriving Repr

def ofUnify : Option (Option Subst) → Det
  | .none => .oof
  | some .none => .fail
  | some (some σ) => .ok σ

def ofBool (σ : Subst) (b : Bool) : Det := if b then .ok σ else .fail

/-- is `t` a proper list under `σ`? -/
def isList : Nat → Subst → Term → Option Bool
  | 0, _, _ => none
  | n+1, σ, t =>
      match walk n σ t with
      | none => none
      | some (.atom "[]") => some true
      | some (.str "." [_, tl]) => isList n σ tl
      | some _ => some false

/-- is `t` a partial list or a proper list under `σ`? -/
def isPartialList : Nat → Subst → Term → Option Bool
  | 0, _, _ => none
  | n+1, σ, t =>
      match walk n σ t with
      | none => none
      | some (.atom "[]") => some true
      | some (.var _) => some true
      | some (.str "." [_, tl]) => isPartialList n σ tl
      | some _ => some false

def typeTest? : String → Option (Term → Bool)
  | "var" => some fun | .var _ => true | _ => false
  | "nonvar" => some fun | .var _ => false | _ => true
  | "atom" => some fun | .atom _ => true | _ => false
  | "number" => some fun | .int _ => true | .rat _ _ => true | .flt _ => true | _ => false
  | "integer" => some fun | .int _ => true | _ => false
  | "atomic" => some fun | .var _ => false | .str _ _ => false | _ => true
  | "compound" => some fun | .str _ _ => true | _ => false
  | "callable" => some fun | .atom _ => true | .str _ _ => true | _ => false
  | _ => none

/-- `n` fresh, distinct variables for `functor/3` (named from the branch counter). -/
def freshVars (c : Nat) : Nat → List Term
  | 0 => []
  | k+1 => .var ("_F" ++ toString k ++ sfx c) :: freshVars c k

def nth? : List Term → Nat → Option Term
  | [], _ => none
  | t :: _, 0 => some t
  | _ :: ts, k+1 => nth? ts k

def builtinFunctor (n : Nat) (σ : Subst) (c : Nat) (t nm ar : Term) : Det :=
  match walk n σ t with
  | none => .oof
  | some (.var v) =>
      match walk n σ nm, walk n σ ar with
      | none, _ => .oof
      | _, none => .oof
      | some (.var _), _ => .err instErr
      | some _, some (.var _) => .err instErr
      | some nm', some (.int a) =>
          if a < 0 then .err (domErr "not_less_than_zero" (.int a))
          else if a == 0 then
            match nm' with
            | .str _ _ => .err (typeErr "atomic" nm')
            | _ => .ok ((v, nm') :: σ)
          else
            match nm' with
            | .atom f => .ok ((v, .str f (freshVars c a.toNat)) :: σ)
            | .str _ _ => .err (typeErr "atomic" nm')
            | _ => .err (typeErr "atom" nm')
      | some _, some ar' => .err (typeErr "integer" ar')
  | some (.str f args) =>
      match unify n σ nm (.atom f) with
      | some (some σ') => ofUnify (unify n σ' ar (.int args.length))
      | r => ofUnify r
  | some t' =>
      match unify n σ nm t' with
      | some (some σ') => ofUnify (unify n σ' ar (.int 0))
      | r => ofUnify r

def builtinArg (n : Nat) (σ : Subst) (k t a : Term) : Det :=
  match walk n σ k, walk n σ t with
  | none, _ => .oof
  | _, none => .oof
  | some (.var _), _ => .err instErr
  | some _, some (.var _) => .err instErr
  | some (.int i), some (.str _ args) =>
      if i < 0 then .err (domErr "not_less_than_zero" (.int i))
      else if i == 0 then .fail
      else
        match nth? args (i.toNat - 1) with
        | some x => ofUnify (unify n σ a x)
        | none => .fail
  | some (.int _), some t' => .err (typeErr "compound" t')
  | some k', some _ => .err (typeErr "integer" k')

/-- the deterministic builtins, as data (so that proofs can case on the builtin). -/
inductive BI where
  | unif (a b : Term)
  | notUnif (a b : Term)
  | eq (a b : Term)
  | neq (a b : Term)
  | isList (a : Term)
  | is (x e : Term)
  | functor (t nm ar : Term)
  | arg (k t a : Term)
  | typeTest (p : Term → Bool) (a : Term)
  | cmp (p : Int → Int → Bool) (a b : Term)
  | none     -- not a builtin

def classifyB (name : String) (args : List Term) : BI :=
  match name, args with
  | "=", [a, b] => .unif a b
  | "\\=", [a, b] => .notUnif a b
  | "==", [a, b] => .eq a b
  | "\\==", [a, b] => .neq a b
  | "is_list", [a] => .isList a
  | "is", [x, e] => .is x e
  | "functor", [t, nm, ar] => .functor t nm ar
  | "arg", [k, t, a] => .arg k t a
  | nm, [a] =>
      match typeTest? nm with
      | some p => .typeTest p a
      | .none => .none
  | nm, [a, b] =>
      match cmpOp? nm with
      | some p => .cmp p a b
      | .none => .none
  | _, _ => .none

/-- run a deterministic builtin. `c` is the branch counter (only `functor/3` creates variables;
    the caller advances the counter by one). -/
def runB (n : Nat) (σ : Subst) (c : Nat) : BI → Det
  | .unif a b => ofUnify (unify n σ a b)
  | .notUnif a b =>
      match unify n σ a b with
      | .none => .oof
      | some .none => .ok σ
      | some (some _) => .fail
  | .eq a b =>
      match resolve n σ a, resolve n σ b with
      | some a', some b' => ofBool σ (a' == b')
      | _, _ => .oof
  | .neq a b =>
      match resolve n σ a, resolve n σ b with
      | some a', some b' => ofBool σ (!(a' == b'))
      | _, _ => .oof
  | .isList a =>
      match isList n σ a with
      | .none => .oof
      | some b => ofBool σ b
  | .is x e =>
      match evalArith n σ e with
      | .oof => .oof
      | .err f => .err f
      | .ok v => ofUnify (unify n σ x (.int v.val))
  | .functor t nm ar => builtinFunctor n σ c t nm ar
  | .arg k t a => builtinArg n σ k t a
  | .typeTest p a =>
      match walk n σ a with
      | .none => .oof
      | some a' => ofBool σ (p a')
  | .cmp p a b =>
      match evalArith n σ a with
      | .oof => .oof
      | .err f => .err f
      | .ok x =>
        match evalArith n σ b with
        | .oof => .oof
        | .err f => .err f
        | .ok y => ofBool σ (p x.val y.val)
  | .none => .none

/-- deterministic builtins: `Det.none` if `name/arity` is not one of them. -/
def builtin (n : Nat) (name : String) (args : List Term) (σ : Subst) (c : Nat) : Det :=
  runB n σ c (classifyB name args)

/-! ### goals -/

inductive Goal where
  | tru | fal | cut
  | conj (a b : Term)
  | disj (a b : Term)
  | ite (c t e : Term)
  | ifThen (c t : Term)
  | naf (g : Term)
  | once (g : Term)
  | call (g : Term) (extra : List Term)
  | catch (g c r : Term)
  | findall (t g l : Term)
  | throw (b : Term)
  | var (v : String)
  | num (t : Term)
  | pred (name : String) (args : List Term)
  deriving Repr

def classify : Term → Goal
  | .var v => .var v
  | .atom "true" => .tru
  | .atom "fail" => .fal
  | .atom "false" => .fal
  | .atom "!" => .cut
  | .atom a => .pred a []
  | .str "," [a, b] => .conj a b
  | .str ";" [.str "->" [c, t], e] => .ite c t e
  | .str ";" [a, b] => .disj a b
  | .str "->" [c, t] => .ifThen c t
  | .str "\\+" [g] => .naf g
  | .str "once" [g] => .once g
  | .str "catch" [g, c, r] => .catch g c r
  | .str "findall" [t, g, l] => .findall t g l
  | .str "throw" [b] => .throw b
  | .str "call" (g :: extra) => if extra.length ≤ 7 then .call g extra else .pred "call" (g :: extra)
  | .str f args => .pred f args
  | t => .num t

/-- `call/N`: add the extra arguments to the (dereferenced) goal. -/
def addArgs : Term → List Term → Option Term
  | .atom a, [] => some (.atom a)
  | .atom a, extra => some (.str a extra)
  | .str f args, extra => some (.str f (args ++ extra))
  | _, _ => none

/-- body conversion check of `call/1` (ISO 7.6.2): a number in a control position makes the
    whole body non-callable. -/
def bodyOk : Nat → Term → Option Bool
  | 0, _ => none
  | n+1, t =>
      match t with
      | .var _ => some true
      | .atom _ => some true
      | .str f [a, b] =>
          if f == "," || f == ";" || f == "->" then
            match bodyOk n a, bodyOk n b with
            | some x, some y => some (x && y)
            | _, _ => none
          else some true
      | .str _ _ => some true
      | _ => some false

/-! ### result combinators -/

/-- throw `ball` from state `s`: the ball is copied (resolved under the thrower's substitution,
    variables renamed with the branch counter). -/
def raise (n : Nat) (s : St) (ball : Term) : Res :=
  match resolve n s.σ ball with
  | none => Res.oofR
  | some b => Res.throw (rename (sfx s.ctr) b, s.ctr + 1)

/-- run `run` on each answer in order; stop at the first cut or exception. -/
def seqLoop (run : St → Res) : List St → Res
  | [] => Res.none
  | s :: rest =>
      let r := run s
      if r.oof then Res.oofR
      else if r.exc.isSome || r.cut then r
      else
        let r2 := seqLoop run rest
        if r2.oof then Res.oofR
        else ⟨r.sols ++ r2.sols, r2.cut, r2.exc, false⟩

/-- conjunction: `rA` are the results of the left goal, `run` runs the right goal. A cut or an
    exception in the right goal discards the left goal's remaining answers and pending ball.
    (The cut flag is only meaningful without a ball; it is normalised to `false` with one.) -/
def conjRes (rA : Res) (run : St → Res) : Res :=
  if rA.oof then Res.oofR
  else
    let rl := seqLoop run rA.sols
    if rl.oof then Res.oofR
    else if rl.exc.isSome || rl.cut then ⟨rl.sols, rl.exc.isNone, rl.exc, false⟩
    else ⟨rl.sols, rA.cut, rA.exc, false⟩

/-- disjunction: the right branch is skipped if the left one cut or raised. -/
def disjRes (rA : Res) (runB : Unit → Res) : Res :=
  if rA.oof then Res.oofR
  else if rA.exc.isSome || rA.cut then rA
  else
    let rB := runB ()
    if rB.oof then Res.oofR
    else ⟨rA.sols ++ rB.sols, rB.cut, rB.exc, false⟩

/-- if-then-else: first answer of the condition only (its cut is local, a later ball is never
    raised); cut in then/else is transparent. -/
def iteRes (rC : Res) (runT : St → Res) (runE : Unit → Res) : Res :=
  if rC.oof then Res.oofR
  else
    match rC.sols with
    | s1 :: _ => runT s1
    | [] =>
      match rC.exc with
      | some e => Res.throw e
      | .none => runE ()

def nafRes (r : Res) (s : St) : Res :=
  if r.oof then Res.oofR
  else
    match r.sols with
    | _ :: _ => Res.none
    | [] =>
      match r.exc with
      | some e => Res.throw e
      | .none => Res.one s

/-- run an already resolved, argument-extended body opaque to cut (after the ISO body check). -/
def callBody (rec : Term → St → Res) (n : Nat) (s : St) (g' : Term) (extra : List Term) : Res :=
  match addArgs g' extra with
  | none => raise n s (mkError (typeErr "callable" g'))
  | some g'' =>
    match bodyOk n g'' with
    | none => Res.oofR
    | some false => raise n s (mkError (typeErr "callable" g''))
    | some true =>
      let r := rec g'' s
      if r.oof then Res.oofR else ⟨r.sols, false, r.exc, false⟩

def callResolved (rec : Term → St → Res) (n : Nat) (s : St) (g' : Term) (extra : List Term) : Res :=
  match g' with
  | .var _ => raise n s (mkError instErr)
  | _ => callBody rec n s g' extra

/-- `call/N`: resolve the goal, add arguments, check the body, run it opaque to cut. -/
def callGoal (rec : Term → St → Res) (n : Nat) (s : St) (g : Term) (extra : List Term) : Res :=
  match resolve n s.σ g with
  | none => Res.oofR
  | some g' => callResolved rec n s g' extra

def catchRes (rec : Term → St → Res) (n : Nat) (s : St) (g c r : Term) : Res :=
  let rG := callGoal rec n s g []
  if rG.oof then Res.oofR
  else
    match rG.exc with
    | .none => rG
    | some (ball, c') =>
      match unify n s.σ c ball with
      | .none => Res.oofR
      | some .none => rG
      | some (some σ') =>
        let rR := callGoal rec n ⟨σ', c'⟩ r []
        if rR.oof then Res.oofR else ⟨rG.sols ++ rR.sols, false, rR.exc, false⟩

/-- the template instances of the answers, each copied with its own fresh suffix. -/
def instances (n : Nat) (t : Term) : Nat → List St → Option (List Term)
  | _, [] => some []
  | c, s :: rest =>
      match resolve n s.σ t with
      | none => none
      | some ti =>
        match instances n t (c + 1) rest with
        | none => none
        | some ts => some (rename (sfx c) ti :: ts)

def findallRes (rec : Term → St → Res) (n : Nat) (s : St) (t g l : Term) : Res :=
  let rG := callGoal rec n s g []
  if rG.oof then Res.oofR
  else
    match rG.exc with
    | some e => Res.throw e
    | .none =>
      match instances n t s.ctr rG.sols with
      | none => Res.oofR
      | some ts =>
        let c' := s.ctr + ts.length
        match isPartialList n s.σ l with
        | none => Res.oofR
        | some false =>
            raise n ⟨s.σ, c'⟩ (mkError (typeErr "list" l))
        | some true =>
          match unify n s.σ l (Term.ofList ts) with
          | .none => Res.oofR
          | some .none => Res.none
          | some (some σ') => Res.one ⟨σ', c'⟩

def throwResolved (n : Nat) (s : St) (b' : Term) : Res :=
  match b' with
  | .var _ => raise n s (mkError instErr)
  | _ => Res.throw (rename (sfx s.ctr) b', s.ctr + 1)

def throwRes (n : Nat) (s : St) (b : Term) : Res :=
  match resolve n s.σ b with
  | none => Res.oofR
  | some b' => throwResolved n s b'

def clauseMatches (name : String) (arity : Nat) (cl : Clause) : Bool :=
  match cl.head with
  | .atom a => a == name && arity == 0
  | .str f args => f == name && args.length == arity
  | _ => false

/-- try the clauses in textual order. Each clause is renamed apart with the branch counter; its
    body runs in its own cut scope: a cut stops the iteration and is not propagated. -/
def clauseLoop (rec : Term → St → Res) (n : Nat) (goal : Term) (s : St) : List Clause → Res
  | [] => Res.none
  | cl :: rest =>
      match unify n s.σ goal (rename (sfx s.ctr) cl.head) with
      | .none => Res.oofR
      | some .none => clauseLoop rec n goal s rest
      | some (some σ') =>
        let r := rec (rename (sfx s.ctr) cl.body) ⟨σ', s.ctr + 1⟩
        if r.oof then Res.oofR
        else if r.exc.isSome || r.cut then ⟨r.sols, false, r.exc, false⟩
        else
          let r2 := clauseLoop rec n goal s rest
          if r2.oof then Res.oofR
          else ⟨r.sols ++ r2.sols, false, r2.exc, false⟩

def userCall (prog : Prog) (rec : Term → St → Res) (n : Nat) (s : St)
    (name : String) (args : List Term) : Res :=
  let cls := prog.filter (clauseMatches name args.length)
  match cls with
  | [] => raise n s (mkError (existErr name args.length))
  | _ => clauseLoop rec n (if args.isEmpty then .atom name else .str name args) s cls

/-- one level of the interpreter; `rec` runs sub-goals (with one unit of fuel less). -/
def step (prog : Prog) (rec : Term → St → Res) (n : Nat) (g : Term) (s : St) : Res :=
  match classify g with
  | .tru => Res.one s
  | .fal => Res.none
  | .cut => ⟨[s], true, .none, false⟩
  | .conj a b => conjRes (rec a s) (rec b)
  | .disj a b => disjRes (rec a s) (fun _ => rec b s)
  | .ite c t e => iteRes (rec c s) (rec t) (fun _ => rec e s)
  | .ifThen c t => iteRes (rec c s) (rec t) (fun _ => Res.none)
  | .naf g => nafRes (callGoal rec n s g []) s
  | .once g => iteRes (callGoal rec n s g []) Res.one (fun _ => Res.none)
  | .call g extra => callGoal rec n s g extra
  | .var v => callGoal rec n s (.var v) []
  | .num t => raise n s (mkError (typeErr "callable" t))
  | .catch g c r => catchRes rec n s g c r
  | .findall t g l => findallRes rec n s t g l
  | .throw b => throwRes n s b
  | .pred name args =>
      match builtin n name args s.σ s.ctr with
      | .oof => Res.oofR
      | .fail => Res.none
      | .ok σ' => Res.one ⟨σ', s.ctr + 1⟩
      | .err f => raise n s (mkError f)
      | .none => userCall prog rec n s name args

/-- the reference interpreter. -/
def solve : Nat → Prog → Term → St → Res
  | 0, _, _, _ => Res.oofR
  | n+1, prog, g, s => step prog (solve n prog) n g s

/-- `g` started in state `s` runs (with enough fuel) to the result `r`. -/
def Runs (prog : Prog) (g : Term) (s : St) (r : Res) : Prop :=
  ∃ n, solve n prog g s = r ∧ r.oof = false

end Scryer.Solve
