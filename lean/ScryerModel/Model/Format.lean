import ScryerModel.Model.Term
/-
Executable model of `format_//2` of scryer-prolog's `src/lib/format.pl` (property C36).

The library works in two phases and so does the model:

* phase 1, `cells//5` — the format string is read left to right, arguments are consumed, and a
  list of *cells* is produced; a cell is the text between two column stops and consists of
  elements `chars(Cs)` / `goal(G)` (text produced later from an argument) / `glue(Fill,_)`.
  Format-string errors (`domain_error(format_string, …)`, `domain_error(non_empty_list, [])`,
  `domain_error(empty_list, Rest)`) are raised in this phase, i.e. BEFORE any argument is looked at.
  Here: `lex` (directive tokens; the clause order of `cells//5` is unambiguous on the first
  characters after `~`, so tokenising first is the same dispatch) and `cells`.
* phase 2, `format_cells//1` — cell by cell, the goals are run in order (argument type errors are
  raised here, first one wins), the remaining space `To - From - Length` is distributed over the
  glue elements and the characters are emitted. Here: `runGoal`, `evalElems`, `glueSizes`,
  `fill`, `renderCells`.

Parameters: the text of `~w`/`~q` (`Arg.w`, `Arg.q`: what `write_term_to_chars/3` gives with the
options the library passes) and the arithmetic of `~Nf` (`FPrim`: `truncate(F)`,
`round(abs(float_fractional_part(F))*10^N)`, `F < 0`, `truncate(sign(F))`), which the driver
instantiates with the C02 model of the arithmetic functions.

`Cfg.pinned = true` reproduces the pinned `~Nd`/`~ND`/`~NU` on negative integers (the sign is
treated as a digit: findings C36-1, C36-2) and the pinned `~|` after `~w`/`~q` (finding C36-3);
the theorems are about `pinned = false`.

Imports only `Model/Term`.
-/
namespace Scryer.Format
open Scryer

/-! ## digits -/

/-- `nth0(M, "0123456789abcdefghijklmnopqrstuvwxyz", D)` / the upper-case table. -/
def digitChar (upper : Bool) (d : Nat) : Char :=
  if d < 10 then Char.ofNat (48 + d)
  else if upper then Char.ofNat (55 + d) else Char.ofNat (87 + d)

/-- `integer_to_radix_//3`: the digits of `n` in radix `r`, least significant first
    (`M is I0 mod R, I is I0 // R`, stop at 0). -/
def digitsLE (r n : Nat) : List Nat :=
  if _h : n = 0 ∨ r < 2 then [] else n % r :: digitsLE r (n / r)
termination_by n
decreasing_by exact Nat.div_lt_self (by omega) (by omega)

/-- `number_chars/2` of a non-negative integer. -/
def natChars (n : Nat) : List Char :=
  if n = 0 then ['0'] else ((digitsLE 10 n).map (digitChar false)).reverse

/-- `number_chars/2` of an integer. -/
def intChars (i : Int) : List Char :=
  if i < 0 then '-' :: natChars i.natAbs else natChars i.natAbs

/-! ## `~Nd` -/

/-- the body of the `~Nd` goal after `number_chars(Arg, Cs0)`, for `Num ≥ 0`. -/
def insertPoint (num : Nat) (cs0 : List Char) : List Char :=
  if num = 0 then cs0
  else if cs0.length ≤ num then
    '0' :: '.' :: (List.replicate (num - cs0.length) '0' ++ cs0)
  else cs0.take (cs0.length - num) ++ '.' :: cs0.drop (cs0.length - num)

/-- `~Nd`. Pinned: `insertPoint` is applied to the characters of the number INCLUDING the sign.
    Repaired: to the digits of the absolute value, the sign goes in front. -/
def fmtD (pinned : Bool) (num : Nat) (i : Int) : List Char :=
  if pinned then insertPoint num (intChars i)
  else if i < 0 then '-' :: insertPoint num (natChars i.natAbs)
  else insertPoint num (natChars i.natAbs)

/-! ## `~ND`, `~NU` -/

/-- `groups_of_three//2` (applied to the reversed integer part). -/
def groups3 (sep : Char) : List Char → List Char
  | a :: b :: c :: t@(_ :: _) => a :: b :: c :: sep :: groups3 sep t
  | ls => ls

/-- `separate_digits_fractional/4` applied to unsigned text. -/
def sepBody (sep : Char) (body : List Char) : List Char :=
  (groups3 sep (body.takeWhile (· ≠ '.')).reverse).reverse ++ body.dropWhile (· ≠ '.')

/-- `~ND` / `~NU`. Pinned: the text of `~Nd` (with sign) is split at the first `.`, the part
    before it is grouped from the right. Repaired: the sign is set aside first. -/
def fmtSep (pinned : Bool) (sep : Char) (num : Nat) (i : Int) : List Char :=
  if pinned then sepBody sep (fmtD true num i)
  else if i < 0 then '-' :: sepBody sep (insertPoint num (natChars i.natAbs))
  else sepBody sep (insertPoint num (natChars i.natAbs))

/-! ## `~NL` -/

/-- `split_lines_width//2` for a positive width. -/
def splitLines (num : Nat) : Nat → List Char → List Char
  | 0, cs => cs
  | fuel + 1, cs =>
    if cs.length > num then cs.take num ++ '_' :: '\n' :: splitLines num fuel (cs.drop num)
    else cs

/-! ## `~Nr`, `~NR` -/

/-- `integer_to_radix/4` for `2 ≤ r ≤ 36`. -/
def radixChars (upper : Bool) (r : Nat) (i : Int) : List Char :=
  if i = 0 then ['0']
  else
    let ds := ((digitsLE r i.natAbs).map (digitChar upper)).reverse
    if i < 0 then '-' :: ds else ds

/-! ## `~Nf` -/

/-- what the arithmetic of `float_with_n_decimal_digits//2` yields for an argument `F` and `N`:
    `i0 = truncate(F)`, `frr0 = round(abs(float_fractional_part(F))*10^N)`, `neg ↔ F < 0`,
    `sgn = truncate(sign(F))`. -/
structure FParts where
  i0 : Int
  frr0 : Int
  neg : Bool
  sgn : Int
  deriving Repr, DecidableEq

/-- the rest of `float_with_n_decimal_digits//2`. `none` = the DCG fails (the rounded fraction
    does not start with the digit 1 after adding `10^N`; cannot happen when `0 ≤ frr0 ≤ 10^N`). -/
def fmtF (n : Nat) (p : FParts) : Option (List Char) :=
  let pow : Int := (10 : Int) ^ n
  let i := if p.frr0 ≥ pow then p.i0 + p.sgn else p.i0
  let frr := if p.frr0 ≥ pow then p.frr0 else p.frr0 + pow
  let ip := if i = 0 ∧ p.neg = true ∧ frr > pow then ['-', '0'] else intChars i
  if frr = 1 then some (ip ++ ['.', '0'])
  else
    match intChars frr with
    | '1' :: rest => some (ip ++ '.' :: rest)
    | _ => none

/-! ## errors, arguments, goals -/

inductive Err where
  | inst                                   -- instantiation_error
  | type (ty : String) (culprit : Term)    -- type_error(ty, culprit)
  | dom (d : String) (culprit : Term)      -- domain_error(d, culprit)
  | eval (e : String)                      -- evaluation_error(e)
  | uninst (culprit : Term)                -- uninstantiation_error(culprit)
  | fail                                   -- the goal fails
  | unspec                                 -- some error the model does not pin down
  deriving Repr, BEq, Inhabited

abbrev R := Except Err

/-- one element of the argument list with the two renderings `~w` and `~q` use. -/
structure Arg where
  t : Term
  w : List Char
  q : List Char
  deriving Repr, Inhabited

structure Cfg where
  pinned : Bool := false

abbrev FPrim := Term → Int → R FParts

def indicator (f : String) (n : Nat) : Term := .str "/" [.atom f, .int n]

/-- splits a term into its list prefix and tail (`'$skip_max_list'`). -/
def listView (t : Term) : List Term × Term := Term.unconsAll 100000000 t

/-- is the term a one-char atom? -/
def charOf? : Term → Option Char
  | .atom a => match a.toList with
    | [c] => some c
    | _ => none
  | _ => none

def isVar : Term → Bool
  | .var _ => true
  | _ => false

/-- `must_be(chars, T)` of library(error): `can_be(chars)` first (type errors before
    instantiation errors), then `must_be(list)`, then every element must be a character. -/
def mustBeChars (t : Term) : R (List Char) :=
  if isVar t then .error .inst else
  let (xs, tl) := listView t
  if !(isVar tl) && tl != Term.nil then .error (.type "list" t) else
  match xs.find? (fun x => !(isVar x) && (charOf? x).isNone) with
  | some x => .error (.type "character" x)
  | none =>
    if isVar tl then .error .inst
    else if xs.any isVar then .error .inst
    else .ok (xs.filterMap charOf?)

/-- `Arg is Arg0` restricted to what the check generates: integers, the other numbers, `+ - *`
    on integer-valued subexpressions. The run-time evaluator walks the term in post-order: the
    arguments of a compound are evaluated first (left to right, first error wins), then the
    functor is looked up; an atom or an unknown functor is reported as not evaluable
    (ASSUMPTION: the generator never uses evaluable functors other than `+ - *` here). -/
def evalArith : Nat → Term → R Term
  | _, .int v => .ok (.int v)
  | _, .flt b => .ok (.flt b)
  | _, .rat n d => .ok (.rat n d)
  | _, .var _ => .error .inst
  | _, .atom a => .error (.type "evaluable" (indicator a 0))
  | 0, _ => .error .unspec
  | fuel + 1, .str f args =>
    match evalAll fuel args with
    | .error e => .error e
    | .ok vs =>
      match f, vs with
      | "+", [.int x, .int y] => .ok (.int (x + y))
      | "-", [.int x, .int y] => .ok (.int (x - y))
      | "*", [.int x, .int y] => .ok (.int (x * y))
      | "-", [.int x] => .ok (.int (-x))
      | "+", [_, _] => .error .unspec
      | "-", [_, _] => .error .unspec
      | "*", [_, _] => .error .unspec
      | "-", [_] => .error .unspec
      | _, _ => .error (.type "evaluable" (indicator f args.length))
where
  evalAll (fuel : Nat) : List Term → R (List Term)
    | [] => .ok []
    | a :: as =>
      match evalArith fuel a with
      | .error e => .error e
      | .ok v =>
        match evalAll fuel as with
        | .error e => .error e
        | .ok vs => .ok (v :: vs)

/-- `Arg is Arg0, must_be(integer, Arg)`. -/
def evalInt (t : Term) : R Int :=
  match evalArith 1000 t with
  | .error e => .error e
  | .ok (.int v) => .ok v
  | .ok v => .error (.type "integer" v)

/-- the goals stored in `goal(G)` elements (and the `chars(Arg)` element of `~s`, whose
    `must_be(chars, Arg)` check also happens in phase 2). -/
inductive Goal where
  | w (a : Arg)
  | q (a : Arg)
  | a (t : Term)
  | s (t : Term)
  | d (n : Int) (t : Term)
  | sep (c : Char) (n : Int) (t : Term)
  | l (n : Int) (t : Term)
  | f (n : Int) (t : Term)
  | radix (upper : Bool) (n : Int) (t : Term)
  deriving Repr, Inhabited

def directiveText (n : Int) (c : Char) : Term := Term.ofChars ('~' :: intChars n ++ [c])

def runGoal (cfg : Cfg) (prim : FPrim) : Goal → R (List Char)
  | .w a => .ok a.w
  | .q a => .ok a.q
  | .a t =>                                        -- atom_chars(Arg, Chars)
    match t with
    | .atom n => .ok n.toList
    | .var _ => .error .inst
    | t => .error (.type "atom" t)
  | .s t => mustBeChars t
  | .d n t => do
    let i ← evalInt t
    if n < 0 then .error .fail                     -- `append(Bs, Ds, Cs0)` with a too long `Bs`
    else .ok (fmtD cfg.pinned n.toNat i)
  | .sep c n t =>
    -- the inner `format_("~Nd", [Arg])`: a negative N is not a directive
    if n < 0 then .error (.dom "format_string" (directiveText n 'd'))
    else do
      let i ← evalInt t
      .ok (fmtSep cfg.pinned c n.toNat i)
  | .l n t => do
    let i ← evalInt t
    if n < 0 then .error (.dom "not_less_than_zero" (.int n))     -- `length(Prefix, Num)`
    else
      let cs0 := fmtD cfg.pinned 0 i
      .ok (splitLines (if n = 0 then 72 else n.toNat) cs0.length cs0)
  | .f n t => do
    let p ← prim t n
    match fmtF n.toNat p with
    | some cs => .ok cs
    | none => .error .fail
  | .radix up n t => do
    let i ← evalInt t
    if n < 2 ∨ n > 36 then .error (.dom "format_string" (directiveText n (if up then 'R' else 'r')))
    else .ok (radixChars up n.toNat i)

/-! ## tokens (the directive syntax) -/

inductive NumSpec where
  | lit (n : Nat)
  | star
  deriving Repr, DecidableEq, Inhabited

inductive Tok where
  | text (cs : List Char)              -- maximal run without `~` (`upto_what//2`)
  | tilde                              -- ~~
  | plain (c : Char)                   -- ~w ~q ~a ~s ~i : consume one argument
  | nl1                                -- ~n
  | fill (c : Char)                    -- ~t  ~`ct
  | colHere                            -- ~|
  | num (n : NumSpec) (c : Char)       -- [digits|*] then one of d D U L n f r R | +
  | bad                                -- no clause applies
  deriving Repr, DecidableEq, Inhabited

def isDigit (c : Char) : Bool := '0' ≤ c && c ≤ '9'

/-- `numeric_argument_//2` + `foldl(plus_times10, Ns, 0, Num)`. -/
def numPrefix : List Char → Nat → Nat × List Char
  | [], acc => (acc, [])
  | c :: cs, acc => if isDigit c then numPrefix cs (acc * 10 + (c.toNat - 48)) else (acc, c :: cs)

def numericChar (c : Char) : Bool :=
  c == 'd' || c == 'D' || c == 'U' || c == 'L' || c == 'n' || c == 'f' || c == 'r' || c == 'R'
    || c == '|' || c == '+'

/-- the directive after a `~`: token and remaining format string. -/
def lexDirective : List Char → Tok × List Char
  | '~' :: r => (.tilde, r)
  | 'w' :: r => (.plain 'w', r)
  | 'q' :: r => (.plain 'q', r)
  | 'a' :: r => (.plain 'a', r)
  | 'i' :: r => (.plain 'i', r)
  | 's' :: r => (.plain 's', r)
  | 'n' :: r => (.nl1, r)
  | 'f' :: r => (.num (.lit 6) 'f', r)
  | 'r' :: r => (.num (.lit 8) 'r', r)
  | 'R' :: r => (.num (.lit 8) 'R', r)
  | '`' :: c :: 't' :: r => (.fill c, r)
  | 't' :: r => (.fill ' ', r)
  | '|' :: r => (.colHere, r)
  | '*' :: c :: r => if numericChar c then (.num .star c, r) else (.bad, [])
  | cs =>
    match numPrefix cs 0 with
    | (n, c :: r) => if numericChar c then (.num (.lit n) c, r) else (.bad, [])
    | (_, []) => (.bad, [])

/-- tokens paired with the format string from the token's first character on (the culprit of
    `domain_error(format_string, …)`). -/
def lex : Nat → List Char → List (Tok × List Char)
  | 0, _ => []
  | _ + 1, [] => []
  | fuel + 1, '~' :: r =>
    match lexDirective r with
    | (.bad, _) => [(.bad, '~' :: r)]
    | (t, r') => (t, '~' :: r) :: lex fuel r'
  | fuel + 1, c :: r =>
    (.text ((c :: r).takeWhile (· ≠ '~')), c :: r) :: lex fuel ((c :: r).dropWhile (· ≠ '~'))

def tokens (fs : List Char) : List (Tok × List Char) := lex (fs.length + 1) fs

/-! ## phase 1: cells -/

inductive Elem where
  | chars (cs : List Char)
  | goal (g : Goal)
  | glue (c : Char)
  deriving Repr, Inhabited

/-- where the cell ends: `same` = `cell(Tab,Tab,Es)`, `abs n` = `~N|`, `rel n` = `~N+`,
    `width` = `~|` (at the natural width of the cell). -/
inductive ToSpec where
  | same
  | abs (n : Int)
  | rel (n : Int)
  | width
  deriving Repr, DecidableEq, Inhabited

inductive Cell where
  | cell (to : ToSpec) (es : List Elem)
  | newlines (k : Nat)                 -- k `newline`s, the tab position restarts at 0
  deriving Repr, Inhabited

/-- the last clause of `cells//5` for `~`. -/
def directiveErr (src : List Char) (args : List Arg) : Err :=
  if args.isEmpty then .dom "non_empty_list" Term.nil else .dom "format_string" (Term.ofChars src)

/-- `numeric_argument/5`: `none` = the clause does not apply. A `*` argument that is not an
    integer is reported as `unspec` (the library raises whatever its first use raises). -/
def takeNum (spec : NumSpec) (args : List Arg) : Option (R Int × List Arg) :=
  match spec, args with
  | .lit n, as => some (.ok n, as)
  | .star, a :: as =>
    match a.t with
    | .int v => some (.ok v, as)
    | _ => some (.error .unspec, as)
  | .star, [] => none

/-- what one directive does in phase 1. -/
inductive Step where
  | push (e : Elem) (rest : List Arg)          -- an element is added to the current cell
  | skip (rest : List Arg)                     -- `~i`
  | close (to : ToSpec) (nl : Option Nat) (rest : List Arg)
      -- the current cell is closed (`nl = some k`: `cell(Tab,Tab,Es)`, k newlines, column 0)
  | err (e : Err)
  deriving Repr, Inhabited

/-- `~w ~q ~a ~s`: the element for the argument; `none` = `~i` (the argument is skipped). -/
def plainElem (c : Char) (a : Arg) : Option Elem :=
  if c == 'w' then some (.goal (.w a))
  else if c == 'q' then some (.goal (.q a))
  else if c == 'a' then some (.goal (.a a.t))
  else if c == 's' then some (.goal (.s a.t))
  else none

/-- the numeric directives that take no further argument: `~Nn` (fails for N < 0), `~N|`, `~N+`. -/
def numClose (c : Char) (n : Int) : Option (R (ToSpec × Option Nat)) :=
  if c == 'n' then
    (if n < 0 then some (.error .fail) else some (.ok (.same, some n.toNat)))     -- `n_newlines//1`
  else if c == '|' then some (.ok (.abs n, none))
  else if c == '+' then some (.ok (.rel n, none))
  else none

/-- the numeric directives that format the next argument. -/
def numGoal (c : Char) (n : Int) (t : Term) : Option Goal :=
  if c == 'd' then some (.d n t)
  else if c == 'D' then some (.sep ',' n t)
  else if c == 'U' then some (.sep '_' n t)
  else if c == 'L' then some (.l n t)
  else if c == 'f' then some (.f n t)
  else if c == 'r' then some (.radix false n t)
  else if c == 'R' then some (.radix true n t)
  else none

/-- one clause of `cells//5`: the token, the format string from the token on, the arguments. -/
def step (tok : Tok) (src : List Char) (args : List Arg) : Step :=
  match tok with
  | .text cs => .push (.chars cs) args
  | .tilde => .push (.chars ['~']) args
  | .plain c =>
    match args with
    | [] => .err (directiveErr src args)
    | a :: as =>
      match plainElem c a with
      | some e => .push e as
      | none => .skip as                                               -- ~i
  | .nl1 => .close .same (some 1) args
  | .fill c => .push (.glue c) args
  | .colHere => .close .width none args
  | .num spec c =>
    match takeNum spec args with
    | none => .err (directiveErr src args)
    | some (.error e, _) => .err e
    | some (.ok n, as) =>
      match numClose c n with
      | some (.error e) => .err e
      | some (.ok (sp, nl)) => .close sp nl as
      | none =>
        match as with
        | [] => .err (directiveErr src args)
        | a :: as' =>
          match numGoal c n a.t with
          | some g => .push (.goal g) as'
          | none => .err (directiveErr src args)
  | .bad => .err (directiveErr src args)

/-- `cells//5`: `es` is the (reversed) list of elements of the cell under construction. -/
def cells : List (Tok × List Char) → List Arg → List Elem → R (List Cell)
  | [], args, es =>
    if args.isEmpty then .ok [.cell .same es.reverse]
    else .error (.dom "empty_list" (Term.ofList (args.map (·.t))))
  | (tok, src) :: ts, args, es =>
    match step tok src args with
    | .err e => .error e
    | .push e as => cells ts as (e :: es)
    | .skip as => cells ts as es
    | .close to nl as =>
      match cells ts as [] with
      | .error e => .error e
      | .ok rest =>
        match nl with
        | some k => .ok (.cell .same es.reverse :: .newlines k :: rest)
        | none => .ok (.cell to es.reverse :: rest)

/-! ## phase 2: rendering -/

inductive Seg where
  | txt (cs : List Char)
  | pad (c : Char)
  deriving Repr, DecidableEq, Inhabited

/-- `elements_gluevars//3`: runs the goals of a cell in order. -/
def evalElems (cfg : Cfg) (prim : FPrim) : List Elem → R (List Seg)
  | [] => .ok []
  | .chars cs :: es => do
    let r ← evalElems cfg prim es
    .ok (.txt cs :: r)
  | .glue c :: es => do
    let r ← evalElems cfg prim es
    .ok (.pad c :: r)
  | .goal g :: es =>
    match runGoal cfg prim g with
    | .error e => .error e
    | .ok cs => do
      let r ← evalElems cfg prim es
      .ok (.txt cs :: r)

def textWidth : List Seg → Nat
  | [] => 0
  | .txt cs :: r => cs.length + textWidth r
  | .pad _ :: r => textWidth r

def countPads : List Seg → Nat
  | [] => 0
  | .txt _ :: r => countPads r
  | .pad _ :: r => countPads r + 1

/-- the sizes of the `k` glue elements of a cell with `space` columns to distribute:
    `Distr is Space // NumGlue`, the remainder goes to the LAST glue element. -/
def glueSizes (k : Nat) (space : Int) : List Nat :=
  if k = 0 then []
  else if space ≤ 0 then List.replicate k 0
  else
    let s := space.toNat
    let distr := s / k
    let delta := s - distr * k
    if delta = 0 then List.replicate k distr
    else List.replicate (k - 1) distr ++ [distr + delta]

/-- `format_elements//1` with the glue sizes filled in. -/
def fill : List Seg → List Nat → List Char
  | [], _ => []
  | .txt cs :: r, ns => cs ++ fill r ns
  | .pad c :: r, n :: ns => List.replicate n c ++ fill r ns
  | .pad _ :: r, [] => fill r []

/-- `format_cell(cell(From,To,Es))` after the goals have run. -/
def renderCell (from_ to : Int) (segs : List Seg) : List Char :=
  fill segs (glueSizes (countPads segs) (to - from_ - (textWidth segs : Int)))

def cellTo (from_ : Int) (width : Nat) : ToSpec → Int
  | .same => from_
  | .abs n => n
  | .rel n => from_ + n
  | .width => from_ + width

/-- the text of the last `~w`/`~q` goal of a cell. -/
def lastWrite : List Elem → Option (List Char)
  | [] => none
  | .goal (.w a) :: es => (lastWrite es).or (some a.w)
  | .goal (.q a) :: es => (lastWrite es).or (some a.q)
  | _ :: es => lastWrite es

/-- `format_cells//1`, threading the position of the last column stop.
    Pinned: the goal that `~|` appends to its cell runs the goals of the cell a second time; all of
    them are idempotent except `write_term_to_chars/3`, which insists on an unbound third argument
    (finding C36-3): a `~|` cell with a `~w`/`~q` raises an uninstantiation error. -/
def renderCells (cfg : Cfg) (prim : FPrim) : List Cell → Int → R (List Char)
  | [], _ => .ok []
  | .newlines k :: cs, _ => do
    let r ← renderCells cfg prim cs 0
    .ok (List.replicate k '\n' ++ r)
  | .cell spec es :: cs, tab =>
    match evalElems cfg prim es with
    | .error e => .error e
    | .ok segs =>
      let to := cellTo tab (textWidth segs) spec
      if cfg.pinned && spec == .width && (lastWrite es).isSome then
        .error (.uninst (Term.ofChars ((lastWrite es).getD [])))
      else
      match renderCells cfg prim cs to with
      | .error e => .error e
      | .ok r => .ok (renderCell tab to segs ++ r)

/-! ## top level -/

/-- `must_be(list, Args)`. -/
def mustBeList (t : Term) : R (List Term) :=
  if isVar t then .error .inst else
  let (xs, tl) := listView t
  if isVar tl then .error .inst
  else if tl != Term.nil then .error (.type "list" t)
  else .ok xs

/-- `phrase(format_(Fs, Args), Ls)` for a proper character list and argument list. -/
def formatChars (cfg : Cfg) (prim : FPrim) (fs : List Char) (args : List Arg) : R (List Char) :=
  match cells (tokens fs) args [] with
  | .error e => .error e
  | .ok cs => renderCells cfg prim cs 0

/-- `phrase(format_(Fs, Args), Ls)`; `texts i` = the `~w`/`~q` renderings of the i-th argument. -/
def format_ (cfg : Cfg) (prim : FPrim) (texts : Nat → List Char × List Char) (fs args : Term) :
    R (List Char) := do
  let cs ← mustBeChars fs
  let as ← mustBeList args
  formatChars cfg prim cs (as.zipIdx.map fun (t, i) => ⟨t, (texts i).1, (texts i).2⟩)

end Scryer.Format
