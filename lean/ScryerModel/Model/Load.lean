import ScryerModel.Model.Solve
/-
Loading modes of a program (C08). In the reference semantics a program is a clause list; the three
ways of presenting clauses to the system are three ways of building that list.
-/
namespace Scryer.Load
open Scryer Scryer.Solve

/-- consult static text: the clauses in textual order. -/
def loadStatic (text : List Clause) : Prog := text

/-- consult several pieces of text one after the other (a predicate may be spread over pieces:
    `:- discontiguous`). -/
def loadPieces (pieces : List (List Clause)) : Prog := pieces.flatten

/-- `assertz/1` on a dynamic database. -/
def assertz (db : Prog) (c : Clause) : Prog := db ++ [c]

/-- `asserta/1`. -/
def asserta (db : Prog) (c : Clause) : Prog := c :: db

/-- declare everything dynamic and add the clauses with `assertz/1`, in order. -/
def loadDynamic (cs : List Clause) : Prog := cs.foldl assertz []

end Scryer.Load
