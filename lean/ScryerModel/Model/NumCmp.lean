import ScryerModel.Model.F64
/-
Model of number comparison in scryer-prolog:
* `impl Ord for Number` and `impl PartialEq for Number` (src/arithmetic.rs), 16 arms each, over the four
  representations `Fixnum` / `Integer` (arena bignum, never renormalised) / `Rational` / `Float`;
* the success patterns of the 24 comparison instructions
  `{,Default}{Call,Execute}Number{LessThan,LessThanOrEqual,GreaterThan,GreaterThanOrEqual,Equal,NotEqual}`
  of src/machine/dispatch.rs (all 24 do `match n1.cmp(&n2) { <patterns> => succeed, _ => backtrack }`).

Conversions to `f64` are parameters of the arms (`Conv`): `i64 as f64` for a fixnum,
`IBig::to_f64().value()` for a bignum, `RBig::to_f64().value()` for a rational. `Conv.exact` is the
correctly rounded conversion `F64.rne` (the specification, and the behaviour with the repair of
findings C04-1/C04-2); `Conv.pinned` mirrors the pinned dashu 0.4.2.
No conversion raises an error in a comparison: a value beyond the double range becomes ±∞ and is
compared as such.
-/
namespace Scryer.NumCmp
open Scryer.F64

inductive Number where
  | fix (v : Int)               -- Number::Fixnum, 56-bit payload
  | big (v : Int)               -- Number::Integer (any value, also small ones)
  | rat (n : Int) (d : Nat)     -- Number::Rational n/d, d > 0
  | flt (f : F64)               -- Number::Float(OrderedFloat(f))
  deriving Repr, DecidableEq, Inhabited

/-- the only invariant comparisons rely on: a positive denominator. (The 56-bit range of a fixnum
    payload is irrelevant here: every theorem holds for any payload.) -/
def Number.wf : Number → Prop
  | .rat _ d => 0 < d
  | _ => True

def Number.isFloat : Number → Bool
  | .flt _ => true
  | _ => false

structure Conv where
  i64ToF : Int → F64            -- `n as f64`
  bigToF : Int → F64            -- `IBig::to_f64().value()`
  ratToF : Int → Nat → F64      -- `RBig::to_f64().value()`

def Conv.exact : Conv := ⟨fun v => rne v 1, fun v => rne v 1, rne⟩
def Conv.pinned : Conv := ⟨fun v => rne v 1, dashuIntToF64, dashuRatToF64⟩
def Conv.fixed : Conv := ⟨fun v => rne v 1, fun v => fixedRatToF64 v 1, fixedRatToF64⟩

/-- `impl Ord for Number :: cmp`, arm by arm in source order. -/
def cmpWith (c : Conv) : Number → Number → Ordering
  | .fix n1, .fix n2 => compare n1 n2                       -- n1.get_num().cmp(&n2.get_num())
  | .fix n1, .big n2 => compare n1 n2                       -- Integer::from(n1).cmp(n2)
  | .big n1, .fix n2 => compare n1 n2
  | .fix n1, .rat n2 d2 => fracCmp n1 1 n2 d2               -- Rational::from(n1).cmp(n2)
  | .rat n1 d1, .fix n2 => fracCmp n1 d1 n2 1
  | .fix n1, .flt f2 => F64.cmp (c.i64ToF n1) f2            -- OrderedFloat(n1 as f64).cmp(&n2)
  | .flt f1, .fix n2 => F64.cmp f1 (c.i64ToF n2)
  | .big n1, .big n2 => compare n1 n2
  | .big n1, .flt f2 => F64.cmp (c.bigToF n1) f2            -- OrderedFloat(n1.to_f64().value()).cmp(n2)
  | .flt f1, .big n2 => F64.cmp f1 (c.bigToF n2)
  | .big n1, .rat n2 d2 => fracCmp n1 1 n2 d2               -- num_partial_cmp (never None)
  | .rat n1 d1, .big n2 => fracCmp n1 d1 n2 1
  | .rat n1 d1, .flt f2 => F64.cmp (c.ratToF n1 d1) f2
  | .flt f1, .rat n2 d2 => F64.cmp f1 (c.ratToF n2 d2)
  | .flt f1, .flt f2 => F64.cmp f1 f2
  | .rat n1 d1, .rat n2 d2 => fracCmp n1 d1 n2 d2

/-- `impl PartialEq for Number :: eq`, arm by arm in source order. -/
def eqWith (c : Conv) : Number → Number → Bool
  | .fix n1, .fix n2 => n1 == n2
  | .fix n1, .big n2 => n1 == n2                            -- num_eq
  | .big n1, .fix n2 => n1 == n2
  | .fix n1, .rat n2 d2 => fracCmp n1 1 n2 d2 == .eq        -- Integer::from(n1).num_eq(&**n2)
  | .rat n1 d1, .fix n2 => fracCmp n1 d1 n2 1 == .eq
  | .fix n1, .flt f2 => F64.eq (c.i64ToF n1) f2
  | .flt f1, .fix n2 => F64.eq f1 (c.i64ToF n2)
  | .big n1, .big n2 => n1 == n2
  | .big n1, .flt f2 => F64.eq (c.bigToF n1) f2
  | .flt f1, .big n2 => F64.eq f1 (c.bigToF n2)
  | .big n1, .rat n2 d2 => fracCmp n1 1 n2 d2 == .eq
  | .rat n1 d1, .big n2 => fracCmp n1 d1 n2 1 == .eq
  | .rat n1 d1, .flt f2 => F64.eq (c.ratToF n1 d1) f2
  | .flt f1, .rat n2 d2 => F64.eq f1 (c.ratToF n2 d2)
  | .flt f1, .flt f2 => F64.eq f1 f2
  | .rat n1 d1, .rat n2 d2 => fracCmp n1 d1 n2 d2 == .eq

def cmpNum : Number → Number → Ordering := cmpWith Conv.exact
def eqNum : Number → Number → Bool := eqWith Conv.exact

/-! ### the six predicates -/

inductive CmpOp where
  | lt | le | gt | ge | eq | ne
  deriving Repr, DecidableEq, Inhabited

/-- the match patterns of the comparison instructions of dispatch.rs. -/
def CmpOp.accepts : CmpOp → Ordering → Bool
  | .lt, o => o == .lt                    -- Ordering::Less
  | .le, o => o == .lt || o == .eq        -- Ordering::Less | Ordering::Equal
  | .gt, o => o == .gt                    -- Ordering::Greater
  | .ge, o => o == .gt || o == .eq        -- Ordering::Greater | Ordering::Equal
  | .eq, o => o == .eq                    -- Ordering::Equal
  | .ne, o => !(o == .eq)                 -- Ordering::Equal => backtrack, _ => succeed

/-- a comparison goal `a op b` on evaluated operands. -/
def holdsWith (c : Conv) (op : CmpOp) (a b : Number) : Bool := op.accepts (cmpWith c a b)
def holds : CmpOp → Number → Number → Bool := holdsWith Conv.exact

/-! ### specification -/

/-- exact value of a non-float number, as an extended value. -/
def valX : Number → XVal
  | .fix v => .fin v 1
  | .big v => .fin v 1
  | .rat n d => .fin n d
  | .flt f => toX f

/-- conversion of any number to a double by the rule of the statement. -/
def toF64 : Number → F64
  | .fix v => rne v 1
  | .big v => rne v 1
  | .rat n d => rne n d
  | .flt f => f

/-- the specification of the statement: exact comparison of values between integers and
    rationals; comparison of doubles after correctly rounded conversion when a float is involved. -/
def cmpSpec (a b : Number) : Ordering :=
  if a.isFloat || b.isFloat then F64.cmp (toF64 a) (toF64 b)
  else XVal.cmp (valX a) (valX b)

/-- the four instruction variants of one operator (`CallNumber…`, `ExecuteNumber…` and their
    `Default…` twins): they differ in the continuation (`p += 1` / `p = cp`) and in inference counting;
    Extracted/CmpInstrs.lean lists, from the source, on which `Ordering`s each of the 24 succeeds. -/
inductive Variant where
  | call | execute | defaultCall | defaultExecute
  deriving Repr, DecidableEq

end Scryer.NumCmp
