import ScryerModel.Model.Term
import ScryerModel.Model.Order
/-
C25 — all-solutions predicates, list level.

`bagof/3` and `setof/3` of src/lib/builtins.pl work on the list `PairedSolutions` of copies
`Witnesses-Template` that `findall/3` delivers for the goal:

    unify_variant_variables(PairedSolutions, _Dict),      -- canonical names for witness variables
    keysort(PairedSolutions, PairedSolutions1),           -- setof: sort/2
    split_by_variant(PairedSolutions1, Witnesses, Solution).

Mirrored here (clause by clause where the code is Prolog):
* `splitPrefix`  = `split_by_variant/4`, `splitGroups` = `split_by_variant/3` (the list of the
  alternatives it offers on backtracking, in order);
* `keysort` / `sortPairs` = `keysort/2` / `sort/2` (Rust, stable merge sort; modelled by the core
  `List.mergeSort`, which is a stable merge sort as well) — generic in the key and value types and in
  the comparison, instantiated with the standard order `Scryer.Order.termCompare` (C13);
* `canonPair` = the effect of `unify_variant_variables/2` on one solution: the i-th variable (in
  `term_variables/2` order) of every witness is unified with the i-th element of one shared open
  list `Dict`, i.e. it is renamed to the i-th dictionary variable, in witness and template alike;
* `termVars` = `term_variables/2`; `rightmostPower` = `rightmost_power/3`; `witnesses0`,
  `witPinned`, `witFixed` = the witness computation of `bagof/3` + `findall_with_existential/5`
  (`witPinned`: the `lists:append/3` call of the pinned code; `witFixed`: set difference, the
  repaired code, finding C25-1).

Abstracted: heap representation, the lifted heap used by findall, attributed variables.
An order that is decided by comparing two *distinct variables* is implementation defined
(variables are ordered by heap address): `varDecided` detects it and the interpreter level
(`Model/AllSolRun.lean`) treats such a sort as outside the model.
Import-free (only the shared Term and Order models).
-/
namespace Scryer.AllSol
open Scryer

/-! ### grouping, generic in keys `κ` (witness instances) and values `α` (template instances) -/
section generic
variable {κ α : Type}

/-- `@=<` on the keys of two pairs. -/
def keyLe (cmp : κ → κ → Ordering) (p q : κ × α) : Bool := cmp p.1 q.1 != .gt

/-- `keysort/2`: stable sort by key. -/
def keysort (cmp : κ → κ → Ordering) (l : List (κ × α)) : List (κ × α) :=
  l.mergeSort (keyLe cmp)

/-- `split_by_variant/4`: the solutions of the maximal prefix of `pairs` whose keys are `==` to
    `v1`, and the rest. -/
def splitPrefix (cmp : κ → κ → Ordering) (v1 : κ) : List (κ × α) → List α × List (κ × α)
  | [] => ([], [])
  | (v2, s2) :: ps =>
      if cmp v1 v2 == .eq then
        let r := splitPrefix cmp v1 ps
        (s2 :: r.1, r.2)
      else ([], (v2, s2) :: ps)

theorem splitPrefix_length (cmp : κ → κ → Ordering) (v1 : κ) (l : List (κ × α)) :
    (splitPrefix cmp v1 l).2.length ≤ l.length := by
  induction l with
  | nil => simp [splitPrefix]
  | cons p ps ih =>
    obtain ⟨v2, s2⟩ := p
    simp only [splitPrefix]
    split
    · simp only [List.length_cons]; omega
    · simp

/-- `split_by_variant/3`: the alternatives `(V, [S|Solutions0])` in the order in which they are
    offered on backtracking (first the group of the first pair, then those of `Rest`). -/
def splitGroups (cmp : κ → κ → Ordering) : List (κ × α) → List (κ × List α)
  | [] => []
  | (v, s) :: ps =>
      (v, s :: (splitPrefix cmp v ps).1) :: splitGroups cmp (splitPrefix cmp v ps).2
termination_by l => l.length
decreasing_by
  have := splitPrefix_length cmp v ps
  simp only [List.length_cons]; omega

/-- the groups `bagof/3` enumerates for the (canonicalised) solution pairs `sols`. -/
def bagofGroups (cmp : κ → κ → Ordering) (sols : List (κ × α)) : List (κ × List α) :=
  splitGroups cmp (keysort cmp sols)

/-- the standard order on `K-V` pair terms: key first, then value. -/
def pairCmp (cmpK : κ → κ → Ordering) (cmpA : α → α → Ordering) (p q : κ × α) : Ordering :=
  (cmpK p.1 q.1).then (cmpA p.2 q.2)

/-- remove an element that is `==` to its successor (the dedup step of `sort/2`). -/
def dedupAdj {β : Type} (cmp : β → β → Ordering) : List β → List β
  | [] => []
  | x :: r =>
      match r with
      | [] => [x]
      | y :: _ => if cmp x y == .eq then dedupAdj cmp r else x :: dedupAdj cmp r

/-- `sort/2`: sort by the standard order and remove duplicates. -/
def sortDedup {β : Type} (cmp : β → β → Ordering) (l : List β) : List β :=
  dedupAdj cmp (l.mergeSort (fun a b => cmp a b != .gt))

/-- the groups `setof/3` enumerates: `sort/2` on the pairs, then the same split. -/
def setofGroups (cmpK : κ → κ → Ordering) (cmpA : α → α → Ordering) (sols : List (κ × α)) :
    List (κ × List α) :=
  splitGroups cmpK (sortDedup (pairCmp cmpK cmpA) sols)

end generic

/-! ### variables of a term -/

/-- keep the first occurrence of every element. -/
def dedup : List String → List String
  | [] => []
  | x :: xs => x :: (dedup xs).filter (fun y => y != x)

mutual
/-- all variable occurrences, depth first, left to right. -/
def occVars : Term → List String
  | .var v => [v]
  | .str _ args => occVarsL args
  | _ => []
def occVarsL : List Term → List String
  | [] => []
  | t :: ts => occVars t ++ occVarsL ts
end

/-- `term_variables/2`: the variables in order of first occurrence. -/
def termVars (t : Term) : List String := dedup (occVars t)

def idxOf (v : String) : List String → Nat
  | [] => 0
  | x :: xs => if x == v then 0 else idxOf v xs + 1

mutual
/-- rename variables with `ρ`. -/
def mapVars (ρ : String → String) : Term → Term
  | .var v => .var (ρ v)
  | .str f args => .str f (mapVarsL ρ args)
  | t => t
def mapVarsL (ρ : String → String) : List Term → List Term
  | [] => []
  | t :: ts => mapVars ρ t :: mapVarsL ρ ts
end

/-- the renaming `unify_variant_variables/2` effects on a solution whose witness has the
    variables `vs`: the i-th one becomes the i-th dictionary variable `d i`. -/
def dictRen (d : Nat → String) (vs : List String) (v : String) : String :=
  if vs.contains v then d (idxOf v vs) else v

/-- one solution `Witness-Template` after `unify_variant_variables/2`. -/
def canonPair (d : Nat → String) (p : Term × Term) : Term × Term :=
  let vs := termVars p.1
  (mapVars (dictRen d vs) p.1, mapVars (dictRen d vs) p.2)

/-- two terms are variants: equal up to a renaming that is injective on the variables of the
    first (specification; not executable). -/
def Variant (a b : Term) : Prop :=
  ∃ ρ : String → String, (∀ x ∈ occVars a, ∀ y ∈ occVars a, ρ x = ρ y → x = y) ∧ mapVars ρ a = b

/-! ### which comparisons are implementation defined -/

mutual
/-- `some true`: the first difference (pre-order) between `a` and `b` is a pair of distinct
    variables; `some false`: it is something else; `none`: no difference found structurally. -/
def firstDiffVar : Term → Term → Option Bool
  | .var x, .var y => if x == y then none else some true
  | .str f as, .str g bs =>
      if as.length != bs.length || f != g then some false else firstDiffVarL as bs
  | .int a, .int b => if a == b then none else some false
  | .atom a, .atom b => if a == b then none else some false
  | _, _ => some false
def firstDiffVarL : List Term → List Term → Option Bool
  | a :: as, b :: bs =>
      match firstDiffVar a b with
      | none => firstDiffVarL as bs
      | r => r
  | _, _ => none
end

/-- the standard order of `a` and `b` depends on the order of two distinct variables. -/
def varDecided (a b : Term) : Bool := firstDiffVar a b == some true

/-- no comparison between two elements of the list depends on the order of variables. -/
def orderFixed : List Term → Bool
  | [] => true
  | x :: xs => xs.all (fun y => !varDecided x y) && orderFixed xs

/-! ### free-variable analysis (`^`) -/

/-- `loader:strip_module/3` as far as the model needs it: peel `M:` qualifications. -/
def stripModule : Term → Term
  | .str ":" [_, g] => stripModule g
  | t => t

def isVar : Term → Bool
  | .var _ => true
  | _ => false

def qual (m : Option Term) (t : Term) : Term :=
  match m with
  | some m => .str ":" [m, t]
  | none => t

/-- `rightmost_power(Term, FinalTerm, Xs)`; `rightmostPower m t` is the call on `t` (for
    `m = none`) resp. on `M:t` (for `m = some M`, the recursive call of the second branch):

    (  Term = X ^ Y   -> ( var(Y) -> FinalTerm = Y,   Xs = [X] ; Xs = [X|Xss], rightmost_power(Y, …) )
    ;  Term = M:X ^ Y -> ( var(Y) -> FinalTerm = M:Y, Xs = [X] ; Xs = [X|Xss], rightmost_power(M:Y, …) )
    ;  Xs = [], FinalTerm = Term ). -/
def rightmostPower : Option Term → Term → Term × List Term
  | none, .str "^" [x, y] =>
      if isVar y then (y, [x]) else
        let r := rightmostPower none y
        (r.1, x :: r.2)
  | none, .str ":" [m, .str "^" [x, y]] =>
      if isVar y then (.str ":" [m, y], [x]) else
        let r := rightmostPower (some m) y
        (r.1, x :: r.2)
  | some m, .str "^" [x, y] =>
      if isVar y then (.str ":" [m, y], [x]) else
        let r := rightmostPower (some m) y
        (r.1, x :: r.2)
  | m, t => (qual m t, [])

/-- `bagof/3`: `term_variables(Template, TVs), term_variables(Goal, GVs),
    term_variables(TVs+GVs, TGVs), append(TVs, Witnesses0, TGVs)`. -/
def witnesses0 (tmpl goal : Term) : List String :=
  let tvs := termVars tmpl
  (dedup (tvs ++ termVars goal)).drop tvs.length

/-- the variables of the `^` prefix: `term_variables(ExistentialVars0, ExistentialVars)`. -/
def existVars (xs : List Term) : List String := dedup (occVarsL xs)

/-- the PINNED code: `lists:append(Witnesses0, Witnesses, ExistentialVars)` on two lists of
    distinct variables. It *unifies* the i-th witness candidate with the i-th existential
    variable (the list of aliasings) and takes the remaining existential variables as
    witnesses; it fails when there are more candidates than existential variables. -/
def witPinned (w0 ev : List String) : Option (List (String × String) × List String) :=
  if w0.length ≤ ev.length then some (w0.zip ev, ev.drop w0.length) else none

/-- the REPAIRED code: the candidates that are not existentially quantified. -/
def witFixed (w0 ev : List String) : List String := w0.filter (fun v => !ev.contains v)

end Scryer.AllSol
