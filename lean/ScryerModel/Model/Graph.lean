/-
C24 — rational trees as finite term GRAPHS, and the graph algorithms behind
`acyclic_term/1`, `==`/`compare/3`, `ground/1`, `term_variables/2`, `copy_term/2` and unification
without occurs check.

A graph is an array of nodes; a node is an unbound variable, an atomic constant (a code whose
numeric order is the standard order of the constants) or a compound `f(children…)` whose children
are node indices.  Arbitrary sharing and back edges are allowed, so a node denotes a rational
(possibly infinite) tree: `unfold g k i` is its unfolding to depth `k`.

Every algorithm is structurally recursive on explicit fuel; `Proofs/Graph.lean` proves that the
fuel used by the top-level entry points is always sufficient (termination on every graph) and that
the answers are the ones of the infinite-tree reading.

What is mirrored from the code, at the level of the mechanism that matters for the property:
* `acyclic`: a depth-first walk in which the nodes on the current path are the "forwarded" cells
  of `CycleDetectingIter`; reaching a forwarded cell again is a cycle (`cycle_detection.rs`).
  The pointer reversal itself and the mark bits (memoisation of finished subterms) are NOT mirrored.
* `cmp`: pre-order parallel walk of two nodes, first difference decides, with the visited-PAIR
  set ("tabu list") of `ParallelHeapIter` (`heap_iter.rs`): a pair met again is skipped.
* `dfs`: pre-order walk with a visited-NODE set (mark bits of `EagerStackfulPreOrderHeapIter`),
  from which `termVars`, `ground` and `copy` (forwarding table) are derived.
* `unify`: pair walk with bindings and the visited-pair set `unify_tabu_list` (`unify.rs`).
Import-free.
-/
namespace Scryer.Graph

inductive Node where
  | var
  | atom (c : Nat)
  | str (f : Nat) (args : List Nat)
  deriving Repr, DecidableEq, Inhabited

abbrev Graph := Array Node

/-- the node at an index; an index outside the array is read as an unbound variable. -/
def node (g : Graph) (i : Nat) : Node := g.getD i .var

/-- well-formed: every child index is inside the array. -/
def WF (g : Graph) : Prop :=
  ∀ i f as, node g i = .str f as → ∀ c ∈ as, c < g.size

def wfB (g : Graph) : Bool :=
  g.all fun n => match n with
    | .str _ as => as.all (· < g.size)
    | _ => true

/-! ## the infinite-tree reading: unfoldings to a finite depth -/

inductive Tree where
  | cut
  | var (i : Nat)
  | atom (c : Nat)
  | node (f : Nat) (args : List Tree)
  deriving Repr, Inhabited

def unfold (g : Graph) : Nat → Nat → Tree
  | 0, _ => .cut
  | k+1, i =>
    match node g i with
    | .var => .var i
    | .atom c => .atom c
    | .str f as => .node f (as.map (unfold g k))

/-- `fin g k i`: the unfolding of `i` is complete at depth `k` (no `cut` leaf): the term denoted by
`i` is a finite tree of depth ≤ `k`. -/
def fin (g : Graph) : Nat → Nat → Bool
  | 0, _ => false
  | k+1, i =>
    match node g i with
    | .str _ as => as.all (fin g k)
    | _ => true

/-! ## acyclic_term/1 -/

/-- depth-first walk; `path` = the compound nodes between the root and `i` (the forwarded cells).
Returns `false` when a node of the path is reached again, or when fuel runs out. -/
def acyc (g : Graph) : Nat → List Nat → Nat → Bool
  | 0, _, _ => false
  | fuel+1, path, i =>
    match node g i with
    | .str _ as => !path.contains i && as.all (acyc g fuel (i :: path))
    | _ => true

/-- `acyclic_term/1`. The path never holds more than `g.size` nodes, so this fuel suffices. -/
def acyclic (g : Graph) (r : Nat) : Bool := acyc g (g.size + 1) [] r

/-! ## ==/2 and compare/3 -/

abbrev Seen := List (Nat × Nat)

inductive Out where
  | fuel                       -- ran out of fuel (proved impossible for the entry points)
  | lt | gt
  | vars (a b : Nat)           -- first difference: two distinct variables (ordered by age)
  | same (seen : Seen)         -- no difference so far
  deriving Repr, DecidableEq, Inhabited

def cmpL (step : Nat → Nat → Seen → Out) : List (Nat × Nat) → Seen → Out
  | [], s => .same s
  | (x, y) :: ps, s =>
    match step x y s with
    | .same s' => cmpL step ps s'
    | o => o

def cmpNat (a b : Nat) : Option Out :=
  if a < b then some .lt else if b < a then some .gt else none

/-- standard order: Var < atomic (by code) < compound (arity, name, arguments left to right);
a pair of compound nodes met again is skipped (tabu list). -/
def cmpN (g : Graph) : Nat → Nat → Nat → Seen → Out
  | 0, _, _, _ => .fuel
  | fuel+1, a, b, seen =>
    if a = b then .same seen else
    match node g a, node g b with
    | .var, .var => .vars a b
    | .var, _ => .lt
    | _, .var => .gt
    | .atom c, .atom d => if c < d then .lt else if d < c then .gt else .same seen
    | .atom _, .str _ _ => .lt
    | .str _ _, .atom _ => .gt
    | .str f as, .str h bs =>
      if seen.contains (a, b) then .same seen else
      if as.length < bs.length then .lt else if bs.length < as.length then .gt else
      if f < h then .lt else if h < f then .gt else
      cmpL (cmpN g fuel) (as.zip bs) ((a, b) :: seen)

/-- fuel that is always enough: at most `size²` distinct pairs of compound nodes. -/
def pairFuel (g : Graph) : Nat := g.size * g.size + 1

def cmp (g : Graph) (a b : Nat) : Out := cmpN g (pairFuel g) a b []

/-- `a == b`. -/
def eq (g : Graph) (a b : Nat) : Bool :=
  match cmp g a b with
  | .same _ => true
  | _ => false

/-! ## visited-set walk: ground/1, term_variables/2, copy_term/2 -/

def dfsL (step : Nat → List Nat → Option (List Nat)) : List Nat → List Nat → Option (List Nat)
  | [], s => some s
  | c :: cs, s =>
    match step c s with
    | some s' => dfsL step cs s'
    | none => none

/-- pre-order depth-first walk; `seen` is the visited set in REVERSE discovery order.
`none` = out of fuel. -/
def dfs (g : Graph) : Nat → Nat → List Nat → Option (List Nat)
  | 0, _, _ => none
  | fuel+1, i, seen =>
    if seen.contains i then some seen else
    match node g i with
    | .str _ as => dfsL (dfs g fuel) as (i :: seen)
    | _ => some (i :: seen)

/-- the nodes reachable from `r`, each once, in order of first visit (pre-order, left to right). -/
def reachList (g : Graph) (r : Nat) : List Nat :=
  match dfs g (g.size + 1) r [] with
  | some s => s.reverse
  | none => []

def isVar (g : Graph) (i : Nat) : Bool :=
  match node g i with
  | .var => true
  | _ => false

/-- `term_variables/2`. -/
def termVars (g : Graph) (r : Nat) : List Nat := (reachList g r).filter (isVar g)

/-- `ground/1`. -/
def ground (g : Graph) (r : Nat) : Bool := (termVars g r).isEmpty

def indexOf (l : List Nat) (x : Nat) : Nat :=
  match l with
  | [] => 0
  | y :: ys => if y = x then 0 else indexOf ys x + 1

/-- the forwarding map of a copy: the `p`-th node of the walk is copied to `base + p`. -/
def fwd (base : Nat) (l : List Nat) (x : Nat) : Nat := base + indexOf l x

def mapNode (φ : Nat → Nat) : Node → Node
  | .str f as => .str f (as.map φ)
  | n => n

/-- `copy_term/2`: the graph extended by a copy of everything reachable from `r`, and the root of
the copy. Every reachable node is copied exactly once (sharing and cycles are preserved), every
variable of the copy is new. -/
def copy (g : Graph) (r : Nat) : Graph × Nat :=
  let l := reachList g r
  let φ := fwd g.size l
  (g ++ (l.map fun i => mapNode φ (node g i)).toArray, φ r)

/-! ## unification without occurs check -/

abbrev Bnd := List (Nat × Nat)

def lookup (b : Bnd) (i : Nat) : Option Nat :=
  match b with
  | [] => none
  | (k, v) :: r => if k = i then some v else lookup r i

/-- follow variable bindings. -/
def deref (g : Graph) (b : Bnd) : Nat → Nat → Nat
  | 0, i => i
  | fuel+1, i =>
    match node g i with
    | .var =>
      match lookup b i with
      | some j => deref g b fuel j
      | none => i
    | _ => i

inductive UOut where
  | fuel
  | fail
  | ok (b : Bnd) (seen : Seen)
  deriving Repr, DecidableEq, Inhabited

def uniL (step : Nat → Nat → Bnd → Seen → UOut) : List (Nat × Nat) → Bnd → Seen → UOut
  | [], b, s => .ok b s
  | (x, y) :: ps, b, s =>
    match step x y b s with
    | .ok b' s' => uniL step ps b' s'
    | o => o

def uniN (g : Graph) : Nat → Nat → Nat → Bnd → Seen → UOut
  | 0, _, _, _, _ => .fuel
  | fuel+1, a, b, bnd, seen =>
    let a := deref g bnd (g.size + 1) a
    let b := deref g bnd (g.size + 1) b
    if a = b then .ok bnd seen else
    match node g a, node g b with
    | .var, _ => .ok ((a, b) :: bnd) seen
    | _, .var => .ok ((b, a) :: bnd) seen
    | .atom c, .atom d => if c = d then .ok bnd seen else .fail
    | .atom _, .str _ _ => .fail
    | .str _ _, .atom _ => .fail
    | .str f as, .str h bs =>
      if seen.contains (a, b) then .ok bnd seen else
      if f = h ∧ as.length = bs.length then
        uniL (uniN g fuel) (as.zip bs) bnd ((a, b) :: seen)
      else .fail

def unify (g : Graph) (a b : Nat) : UOut := uniN g (pairFuel g) a b [] []

/-- unfolding under a binding environment; a variable is named by its representative. -/
def unfoldB (g : Graph) (b : Bnd) : Nat → Nat → Tree
  | 0, _ => .cut
  | k+1, i =>
    let i := deref g b (g.size + 1) i
    match node g i with
    | .var => .var i
    | .atom c => .atom c
    | .str f as => .node f (as.map (unfoldB g b k))

end Scryer.Graph
