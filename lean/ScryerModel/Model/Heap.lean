import ScryerModel.Model.Utf8
/-!
# Byte-level model of `src/machine/heap.rs` (properties C33 and C20)

State: `(mem, len, cap)` in bytes — `len` = `byte_len`, `cap` = `byte_cap`, `mem` = the bytes
`[0, len)` (inside a reservation: up to the section's write position) — plus a log of every write
interval together with the interval the write was allowed to touch, and the allocator's remaining
"grow budget" (`none` = every allocation succeeds).

Mirrored with their exact size arithmetic: `InnerHeap::grow`, `Heap::with_cell_capacity`,
`reserve` + `HeapWriter::write_with`, `push_cell`, `append`, `copy_slice_to_end`,
`copy_pstr_within` (FIXED guard; the original guard is kept as a parameter), `allocate_pstr`,
`allocate_cstr`, `compute_pstr_size`, `truncate`, `ReservedHeapSection::{push_cell,
push_pstr_segment, push_pstr}`, `pstr_sentinel_length`, `pstr_tail_idx`, `scan_slice_to_str`,
`scan_slice_to_str_from_start`, `last_str_char_and_tail`, `sized_iter_to_heap_list`,
`functor_writer` (flat functors: cells and strings).

Abstracted: the bit layout of a `HeapCellValue` (a cell is eight opaque bytes `MByte.cell c k`),
the allocator (a budget of successful grows), `usize` arithmetic is `Nat` with the code's own
overflow checks (`heap_index_checked!`, `checked_mul`) modelled explicitly.
-/
namespace Scryer.Heap

/-! ## constants and index arithmetic -/

/-- `isize::MAX` on the 64-bit target (limit of `Layout::from_size_align` / the assert in `grow`). -/
def isizeMax : Nat := 9223372036854775807
/-- `usize::MAX`. -/
def usizeMax : Nat := 18446744073709551615
/-- first capacity chosen by `grow`: `256 * 256 * 8`. -/
def initCap : Nat := 524288

/-- `cell_index!` -/
def cellIndex (n : Nat) : Nat := n / 8
/-- `heap_index!` (the overflow panic is modelled where it can matter) -/
def heapIndex (n : Nat) : Nat := n * 8

/-- `usize::next_multiple_of(ALIGN)` with `ALIGN = 8`. -/
def nextMultipleOf8 (n : Nat) : Nat := if n % 8 = 0 then n else n + (8 - n % 8)

/-- `pstr_sentinel_length`. -/
def pstrSentinelLength (chunkLen : Nat) : Nat :=
  let res := nextMultipleOf8 chunkLen - chunkLen
  if res = 0 then 8 else res

/-- `Heap::pstr_tail_idx`: heap (byte) index of the zero byte ↦ cell index of the tail. -/
def pstrTailIdx (zeroLoc : Nat) : Nat :=
  if (zeroLoc + 1) % 8 = 0 then cellIndex zeroLoc + 2 else cellIndex zeroLoc + 1

/-! ## cells and memory -/

/-- The cells the mirrored code writes or inspects. -/
inductive Cell where
  | lis (c : Nat)       -- `list_loc_as_cell!(cell index)`
  | pstrLoc (b : Nat)   -- `pstr_loc_as_cell!(byte index)`
  | chr (code : Nat)    -- `char_as_cell!`
  | nil                 -- `empty_list_as_cell!()`
  | heapLoc (c : Nat)   -- `heap_loc_as_cell!`
  | strLoc (c : Nat)    -- `str_loc_as_cell!`
  | raw (v : Nat)       -- any other cell value handed in by a caller
  deriving DecidableEq, Repr, Inhabited

/-- One byte of heap memory: a string/sentinel byte, or the `k`-th byte of the (opaque) encoding of
a cell, or never-written memory. -/
inductive MByte where
  | data (b : Nat)
  | cell (c : Cell) (k : Nat)
  | junk
  deriving DecidableEq, Repr, Inhabited

def encodeCell (c : Cell) : List MByte :=
  [.cell c 0, .cell c 1, .cell c 2, .cell c 3, .cell c 4, .cell c 5, .cell c 6, .cell c 7]

def zeros (n : Nat) : List MByte := List.replicate n (.data 0)

/-- memory after writing `bs` at byte offset `off`: everything behind the write position is dead
(all mirrored operations write at the end of the live region); a gap would be never-written
memory. -/
def put (mem : List MByte) (off : Nat) (bs : List MByte) : List MByte :=
  mem.take off ++ List.replicate (off - mem.length) MByte.junk ++ bs

/-- A logged write of `size` bytes at `off`; `[lo, hi)` is the interval the operation is entitled
to write (the free region `[byte_len, byte_cap)` at the start of a direct operation, the reserved
interval inside a reservation), `cap` the capacity at the time of the write. -/
structure Write where
  off : Nat
  size : Nat
  lo : Nat
  hi : Nat
  cap : Nat
  deriving DecidableEq, Repr

/-- the write stays inside its interval, and that interval inside the allocation. -/
def Write.ok (w : Write) : Prop := w.lo ≤ w.off ∧ w.off + w.size ≤ w.hi ∧ w.hi ≤ w.cap

instance (w : Write) : Decidable w.ok := by unfold Write.ok; infer_instance

structure Heap where
  mem : List MByte := []
  len : Nat := 0
  cap : Nat := 0
  log : List Write := []
  budget : Option Nat := none
  deriving Repr

def Heap.write (h : Heap) (off : Nat) (bs : List MByte) (lo hi : Nat) : Heap :=
  { h with mem := put h.mem off bs, log := ⟨off, bs.length, lo, hi, h.cap⟩ :: h.log }

/-- `free_space()` (`byte_cap - byte_len`; under the invariant no underflow). -/
def Heap.freeSpace (h : Heap) : Nat := h.cap - h.len

/-- `Heap::cell_len()` -/
def Heap.cellLen (h : Heap) : Nat := cellIndex h.len

/-! ## growing -/

inductive GrowRes where
  | grown (h : Heap)
  | failed (h : Heap)     -- the allocator returned null: `grow` returns false, nothing changed
  | panic (h : Heap)      -- `Layout::from_size_align(..).unwrap()` / `assert!(size <= isize::MAX)`

def Heap.newCap (h : Heap) : Nat := if h.cap = 0 then initCap else 2 * h.cap

/-- `InnerHeap::grow`: capacity 0 → 524288, otherwise doubled; `realloc` keeps the contents. -/
def Heap.grow (h : Heap) : GrowRes :=
  if h.newCap > isizeMax then .panic h
  else match h.budget with
    | some 0 => .failed h
    | some (b + 1) => .grown { h with cap := h.newCap, budget := some b }
    | none => .grown { h with cap := h.newCap }

/-- Result of an operation. -/
inductive Res (α : Type) where
  | ok (h : Heap) (a : α)
  | allocErr (h : Heap)    -- `Err(AllocError)`
  | panic (h : Heap)       -- Rust panic (no write happened after the recorded state)
  | contract (h : Heap)    -- the call breaks the operation's precondition; not executed
  | stuck                  -- model artefact: loop fuel exhausted (proved unreachable)
  deriving Repr

def Res.heapD {α} (r : Res α) (d : Heap) : Heap :=
  match r with
  | .ok h _ => h | .allocErr h => h | .panic h => h | .contract h => h | .stuck => d

/-- The loop shared by `reserve`, `append`, `copy_slice_to_end`, `copy_pstr_within`:
`loop { if free_space() >= need { …; break } else if !grow() { return Err } }`. -/
def growUntil : Nat → Heap → Nat → Res Unit
  | 0, _, _ => .stuck
  | fuel + 1, h, need =>
    if h.freeSpace ≥ need then .ok h ()
    else match h.grow with
      | .grown h' => growUntil fuel h' need
      | .failed h' => .allocErr h'
      | .panic h' => .panic h'

/-- enough for 63 doublings (proved in `Proofs/Heap.lean`: `growUntil` never gets stuck). -/
def loopFuel : Nat := 66

/-- `Heap::with_cell_capacity`. -/
def withCellCapacity (capCells : Nat) (budget : Option Nat := none) : Option Heap :=
  if capCells * 8 > usizeMax then none          -- heap_index_checked!
  else some { mem := [], len := 0, cap := heapIndex capCells, log := [], budget := budget }

/-! ## direct operations -/

/-- `Heap::push_cell`. -/
def Heap.pushCell (h : Heap) (c : Cell) : Res Unit :=
  let wr (h : Heap) : Res Unit :=
    .ok { (h.write (heapIndex h.cellLen) (encodeCell c) h.len h.cap) with len := h.len + heapIndex 1 } ()
  if h.len = h.cap then
    match h.grow with
    | .grown h' => wr h'
    | .failed h' => .allocErr h'
    | .panic h' => .panic h'
  else wr h

/-- `Heap::truncate` (precondition: `cellOffset ≤ cell_len`). -/
def Heap.truncate (h : Heap) (cellOffset : Nat) : Res Unit :=
  if cellOffset ≤ h.cellLen then
    .ok { h with len := heapIndex cellOffset, mem := h.mem.take (heapIndex cellOffset) } ()
  else .contract h

/-- `Heap::append(other)`; `other` is the other heap's `as_slice()`, its `cell_len()` is
`other.length / 8` (a `SizedHeap`'s slice has exactly `8 * cell_len` bytes, else `copy_from_slice`
panics). -/
def Heap.append (h : Heap) (other : List MByte) : Res Unit :=
  let otherLen := heapIndex (cellIndex other.length)
  if otherLen ≠ other.length then .contract h
  else match growUntil loopFuel h otherLen with
    | .ok h' _ => .ok { (h'.write h'.len other h'.len h'.cap) with len := h'.len + otherLen } ()
    | .allocErr h' => .allocErr h'
    | .panic h' => .panic h'
    | .contract h' => .contract h'
    | .stuck => .stuck

/-- `Heap::copy_slice_to_end(a..b)` (cell indices; precondition `a ≤ b ≤ cell_len`). -/
def Heap.copySliceToEnd (h : Heap) (a b : Nat) : Res Unit :=
  if ¬ (a ≤ b ∧ b ≤ h.cellLen) then .contract h
  else
    let n := b - a
    match growUntil loopFuel h (heapIndex n) with
    | .ok h' _ =>
      let bytes := (h'.mem.drop (heapIndex a)).take (heapIndex n)
      .ok { (h'.write h'.len bytes h'.len h'.cap) with len := h'.len + heapIndex n } ()
    | .allocErr h' => .allocErr h'
    | .panic h' => .panic h'
    | .contract h' => .contract h'
    | .stuck => .stuck

/-! ## scanning strings -/

/-- the bytes up to (not including) the first zero byte, or to the end of the slice; `none` when
the scan would run into the opaque bytes of a cell (outside the model). -/
def scanData : List MByte → Option (List Nat)
  | [] => some []
  | .data b :: r => if b = 0 then some [] else (scanData r).map (b :: ·)
  | _ :: _ => none

/-- `scan_slice_to_str` as called by `SizedHeap::scan_slice_to_str(slice_loc)` on the slice
`[slice_loc, len)`: the string and the CELL index of its tail. The allocation is 8-aligned, so the
address of the zero byte is congruent to its heap offset. -/
def scanSliceToStr (mem : List MByte) (len sliceLoc : Nat) : Option (List Nat × Nat) :=
  match scanData ((mem.take len).drop sliceLoc) with
  | none => none
  | some str =>
    let stringLen := str.length
    let sentinelLen := pstrSentinelLength (sliceLoc + stringLen)
    let tailIdx := cellIndex (nextMultipleOf8 (stringLen + sentinelLen)
                     + if sentinelLen ≤ 1 then heapIndex 1 else 0)
    some (str, cellIndex sliceLoc + tailIdx)

/-- index of the first zero byte (`src.find('\u{0}')`, `position(|b| *b == 0)`). -/
def findNul : List Nat → Option Nat
  | [] => none
  | b :: r => if b = 0 then some 0 else (findNul r).map (· + 1)

/-- `scan_slice_to_str_from_start` on a Rust string: `(string.len(), tail_idx)`. -/
def scanFromStart (src : List Nat) : Nat × Nat :=
  let stringLen := (findNul src).getD src.length
  let sentinelLen := pstrSentinelLength stringLen
  (stringLen, cellIndex (nextMultipleOf8 (stringLen + sentinelLen)
                 + if sentinelLen ≤ 1 then heapIndex 1 else 0))

def computePstrSizeLoop : Nat → Nat → List Nat → Nat
  | 0, acc, _ => acc
  | fuel + 1, acc, src =>
    match src with
    | [] => acc
    | b :: rest =>
      if b = 0 then computePstrSizeLoop fuel (acc + heapIndex 2) rest
      else computePstrSizeLoop fuel (acc + heapIndex (scanFromStart src).2) (src.drop (scanFromStart src).1)

/-- `Heap::compute_pstr_size` ("number of bytes needed to store `src` as a `PStr`"). -/
def computePstrSize (src : List Nat) : Nat :=
  computePstrSizeLoop (src.length + 1) 0 src + heapIndex 1

/-! ## copy_pstr_within -/

/-- bytes that must be free before `copy_pstr_within` writes — FIXED code (finding C33-1). -/
def copyNeedFixed (copySize alignOffset : Nat) : Nat :=
  if alignOffset = 1 then copySize + heapIndex 1 else copySize

/-- the guard of the original code: `free_space() >= copy_size`. -/
def copyNeedOld (copySize _alignOffset : Nat) : Nat := copySize

/-- `Heap::copy_pstr_within(pstr_loc)` with the free-space guard as a parameter. -/
def Heap.copyPstrWithinG (need : Nat → Nat → Nat) (h : Heap) (pstrLoc : Nat) : Res Nat :=
  if pstrLoc > h.len then .contract h
  else match scanSliceToStr h.mem h.len pstrLoc with
    | none => .contract h
    | some (str, tailIdx) =>
      let sLen := str.length
      let alignOffset := pstrSentinelLength sLen
      let copySize := sLen + alignOffset
      match growUntil loopFuel h (need copySize alignOffset) with
      | .ok h' _ =>
        let h1 := h'.write h'.len (str.map .data) h'.len h'.cap
        let h2 := h1.write (h'.len + sLen) (zeros alignOffset) h'.len h'.cap
        if alignOffset = 1 then
          let h3 := h2.write (h'.len + copySize) (zeros 8) h'.len h'.cap
          .ok { h3 with len := h'.len + (copySize + heapIndex 1) } tailIdx
        else
          .ok { h2 with len := h'.len + copySize } tailIdx
      | .allocErr h' => .allocErr h'
      | .panic h' => .panic h'
      | .contract h' => .contract h'
      | .stuck => .stuck

def Heap.copyPstrWithin : Heap → Nat → Res Nat := Heap.copyPstrWithinG copyNeedFixed

/-! ## reservations -/

/-- `ReservedHeapSection` (+ the heap it writes into, and the reserved byte interval). -/
structure Section where
  h : Heap
  cellLen : Nat      -- `heap_cell_len`
  lo : Nat
  hi : Nat
  deriving Repr

/-- `ReservedHeapSection::push_cell` — no capacity test of any kind. -/
def Section.pushCell (s : Section) (c : Cell) : Section :=
  { s with h := s.h.write (heapIndex s.cellLen) (encodeCell c) s.lo s.hi, cellLen := s.cellLen + 1 }

/-- `ReservedHeapSection::push_pstr_segment`: (section, cells written). -/
def Section.pushPstrSegment (s : Section) (src : List Nat) : Section × Nat :=
  if src.isEmpty then (s, 0)
  else
    let base := heapIndex s.cellLen
    let h1 := s.h.write base (src.map .data) s.lo s.hi
    let zeroRegionIdx := base + src.length
    let alignOffset := pstrSentinelLength zeroRegionIdx
    let h2 := h1.write zeroRegionIdx (zeros alignOffset) s.lo s.hi
    if alignOffset = 1 then
      let h3 := h2.write (zeroRegionIdx + 1) (zeros 8) s.lo s.hi
      let cw := cellIndex (src.length + alignOffset + 8)
      ({ s with h := h3, cellLen := s.cellLen + cw }, cw)
    else
      let cw := cellIndex (src.length + alignOffset)
      ({ s with h := h2, cellLen := s.cellLen + cw }, cw)

/-- the "`match ret { Some(_) => push_cell(link), None => ret = Some(first) }`" step that precedes
every item in `push_pstr`. -/
def Section.linkOrFirst (s : Section) (ret : Option Cell) (link first : Cell) : Section × Option Cell :=
  match ret with
  | some r => (s.pushCell link, some r)
  | none => (s, some first)

/-- the loop of `ReservedHeapSection::push_pstr`. One recursion step = one pass through the
"eat the first null chars" `while`, or one pass through the segment part of the outer `loop`. -/
def pushPstrLoop : Nat → Section → Option Cell → List Nat → Section × Option Cell
  | 0, s, ret, _ => (s, ret)
  | fuel + 1, s, ret, src =>
    match src with
    | [] => (s, ret)
    | b :: rest =>
      if b = 0 then
        let sr := s.linkOrFirst ret (.lis (s.cellLen + 1)) (.lis s.cellLen)
        pushPstrLoop fuel (sr.1.pushCell (.chr 0)) sr.2 rest
      else
        match findNul src with
        | some idx =>
          let sr := s.linkOrFirst ret (.pstrLoc (heapIndex (s.cellLen + 1))) (.pstrLoc (heapIndex s.cellLen))
          let s1 := (sr.1.pushPstrSegment (src.take idx)).1
          let s2 := s1.pushCell (.lis (s1.cellLen + 1))
          let s3 := s2.pushCell (.chr 0)
          pushPstrLoop fuel s3 sr.2 (src.drop (idx + 1))
        | none =>
          let sr := s.linkOrFirst ret (.pstrLoc (heapIndex (s.cellLen + 1))) (.pstrLoc (heapIndex s.cellLen))
          ((sr.1.pushPstrSegment src).1, sr.2)

/-- `ReservedHeapSection::push_pstr`. -/
def Section.pushPstr (s : Section) (src : List Nat) : Section × Option Cell :=
  pushPstrLoop (src.length + 1) s none src

/-- `heap.reserve(num_cells)?` followed by `writer.write_with(f)`. -/
def Heap.withReserved {α} (h : Heap) (numCells : Nat) (f : Section → Section × α) : Res α :=
  if numCells * 8 > usizeMax then .allocErr h        -- heap_index_checked!
  else match growUntil loopFuel h (numCells * 8) with
    | .ok h' _ =>
      let sec : Section := ⟨h', h'.cellLen, heapIndex h'.cellLen, heapIndex h'.cellLen + numCells * 8⟩
      let r := f sec
      .ok { r.1.h with len := heapIndex r.1.cellLen } r.2
    | .allocErr h' => .allocErr h'
    | .panic h' => .panic h'
    | .contract h' => .contract h'
    | .stuck => .stuck

/-- `reserve(n)` then `k = cells.length` plain `push_cell`s (what callers of `reserve` do). -/
def Heap.reserveWrite (h : Heap) (n : Nat) (cells : List Cell) : Res Unit :=
  h.withReserved n fun sec => (cells.foldl Section.pushCell sec, ())

def pstrWriter (src : List Nat) (sec : Section) : Section × Cell :=
  match sec.pushPstr src with
  | (sec', none) => (sec', .nil)
  | (sec', some c) => (sec', c)

def cstrWriter (src : List Nat) (sec : Section) : Section × Cell :=
  match sec.pushPstr src with
  | (sec', none) => (sec', .nil)
  | (sec', some c) => (sec'.pushCell .nil, c)

/-- `Heap::allocate_pstr`: the BYTE size from `compute_pstr_size` is handed to `reserve`, which
takes CELLS (8× over-reservation; mirrored as it is). The size function is a parameter so that
the "corrected units" variant can be stated as a witness. -/
def Heap.allocatePstrG (size : List Nat → Nat) (h : Heap) (src : List Nat) : Res Cell :=
  h.withReserved (size src) (pstrWriter src)

/-- `Heap::allocate_cstr` (reserves `size + 1`). -/
def Heap.allocateCstrG (size : List Nat → Nat) (h : Heap) (src : List Nat) : Res Cell :=
  h.withReserved (size src + 1) (cstrWriter src)

def Heap.allocatePstr : Heap → List Nat → Res Cell := Heap.allocatePstrG computePstrSize
def Heap.allocateCstr : Heap → List Nat → Res Cell := Heap.allocateCstrG computePstrSize

def listWriter (hh : Nat) (items : List Cell) (sec : Section) : Section × Cell :=
  ((items.foldl (fun (acc : Section × Nat) v =>
      ((acc.1.pushCell (.lis (hh + 1 + 2 * acc.2))).pushCell v, acc.2 + 1)) (sec, 0)).1.pushCell .nil,
   .heapLoc hh)

/-- `sized_iter_to_heap_list(heap, size, values)`; `items` = what the iterator yields
(precondition of the Rust function: at most `size` items). -/
def Heap.sizedIterToHeapList (h : Heap) (size : Nat) (items : List Cell) : Res Cell :=
  if size > 0 then
    if size * 2 > usizeMax then .allocErr h         -- checked_mul(2)
    else h.withReserved (1 + size * 2) (listWriter h.cellLen items)
  else .ok h .nil

/-- `FunctorElement`, flat fragment: `Cell`/`AbsoluteCell` and `String(cell_len, string)`. -/
inductive FElem where
  | cell (c : Cell)
  | str (cellLen : Nat) (s : List Nat)
  deriving Repr

/-- cells an element declares (`1` for a cell, `cell_len` for a string). -/
def FElem.declCells : FElem → Nat
  | .cell _ => 1
  | .str n _ => n

/-- `Heap::compute_functor_byte_size`. -/
def computeFunctorByteSize (f : List FElem) : Nat :=
  f.foldl (fun acc e => acc + e.declCells * 8) 0

def Section.writeFElem (sec : Section) : FElem → Section
  | .cell c => sec.pushCell c
  | .str _ s => match sec.pushPstr s with
    | (sec', some _) => sec'.pushCell .nil
    | (sec', none) => sec'

/-- `Heap::functor_writer`: reserves `compute_functor_byte_size` (bytes!) as cells. -/
def Heap.functorWriter (h : Heap) (f : List FElem) : Res Cell :=
  h.withReserved (computeFunctorByteSize f) fun sec =>
    let sec' := f.foldl Section.writeFElem sec
    (sec', if sec'.cellLen - sec.cellLen > 1 then Cell.strLoc sec.cellLen else Cell.heapLoc sec.cellLen)

/-- the functor `error(<string>, [])` as the `functor!` macro lays it out. -/
def errorStub (s : List Nat) : List FElem :=
  [.cell (.raw 0), .cell (.pstrLoc (heapIndex 3)), .cell .nil, .str (cellIndex (computePstrSize s)) s]

/-! ## operation sequences -/

inductive Op where
  | setBudget (b : Option Nat)
  | grow
  | pushCell (c : Cell)
  | reserveWrite (n : Nat) (cells : List Cell)
  | allocPstr (s : List Nat)
  | allocCstr (s : List Nat)
  | copyPstrWithin (loc : Nat)
  | copySliceToEnd (a b : Nat)
  | append (other : List MByte)
  | truncate (c : Nat)
  | heapList (size : Nat) (items : List Cell)
  | functor (f : List FElem)
  deriving Repr

inductive Ret where
  | unit
  | cell (c : Cell)
  | idx (n : Nat)
  deriving Repr

def Res.toRet {α} (r : Res α) (f : α → Ret) : Res Ret :=
  match r with
  | .ok h a => .ok h (f a) | .allocErr h => .allocErr h | .panic h => .panic h
  | .contract h => .contract h | .stuck => .stuck

/-- the functor's declared string lengths are what the `functor!` macro computes. -/
def FElem.declOk : FElem → Bool
  | .cell _ => true
  | .str n s => n == cellIndex (computePstrSize s)

/-- One operation; calls that break a caller-side precondition are not executed (`contract`). -/
def step (h : Heap) : Op → Res Ret
  | .setBudget b => .ok { h with budget := b } .unit
  | .grow => match h.grow with
    | .grown h' => .ok h' .unit
    | .failed h' => .allocErr h'
    | .panic h' => .panic h'
  | .pushCell c => (h.pushCell c).toRet fun _ => .unit
  | .reserveWrite n cells =>
    if cells.length ≤ n then (h.reserveWrite n cells).toRet fun _ => .unit else .contract h
  | .allocPstr s => (h.allocatePstr s).toRet .cell
  | .allocCstr s => (h.allocateCstr s).toRet .cell
  | .copyPstrWithin loc => (h.copyPstrWithin loc).toRet .idx
  | .copySliceToEnd a b => (h.copySliceToEnd a b).toRet fun _ => .unit
  | .append other => (h.append other).toRet fun _ => .unit
  | .truncate c => (h.truncate c).toRet fun _ => .unit
  | .heapList size items =>
    if items.length ≤ size then (h.sizedIterToHeapList size items).toRet .cell else .contract h
  | .functor f =>
    if f.all FElem.declOk then (h.functorWriter f).toRet .cell else .contract h

/-- the heap after a sequence of operations (a failed / refused operation leaves what it leaves). -/
def run (h : Heap) (ops : List Op) : Heap :=
  ops.foldl (fun h op => (step h op).heapD h) h

/-! ## reading strings back (`HeapPStrIter::step`, `char_iter`, `last_str_char_and_tail`) -/

/-- the cell stored at cell index `idx`, if all eight bytes there belong to one cell. -/
def readCell (mem : List MByte) (idx : Nat) : Option Cell :=
  match (mem.drop (heapIndex idx)).take 8 with
  | .cell c 0 :: r => if .cell c 0 :: r = encodeCell c then some c else none
  | _ => none

inductive TailKind where
  | nil | end_ | other | oob | nochar | loop | undef
  deriving DecidableEq, Repr

/-- Follow a string from `cur` as `HeapPStrIter::step` does: `PStrLoc h` — the segment text and
the tail index come from `scan_slice_to_str(h)`; `Lis h` — a character cell at `h`, the tail is
cell `h + 1`; anything else ends the string. Result: text (UTF-8 bytes), cell index of the final
tail, what is there (`end_`: not written yet, i.e. `≥ cell_len`). -/
def readBack : Nat → Heap → Cell → List Nat → Nat → List Nat × Nat × TailKind
  | 0, _, _, text, tail => (text, tail, .loop)
  | fuel + 1, h, cur, text, tail =>
    let continue_ (text : List Nat) (tail : Nat) : List Nat × Nat × TailKind :=
      if tail ≥ h.cellLen then (text, tail, .end_)
      else match readCell h.mem tail with
        | some c => readBack fuel h c text tail
        | none => (text, tail, .undef)
    match cur with
    | .pstrLoc b =>
      if b ≥ h.len then (text, tail, .oob)
      else match scanSliceToStr h.mem h.len b with
        | some (str, tailIdx) => continue_ (text ++ str) tailIdx
        | none => (text, tail, .undef)
    | .lis c =>
      if c ≥ h.cellLen then (text, tail, .oob)
      else match readCell h.mem c with
        | some (.chr code) => continue_ (text ++ Scryer.Utf8.encode code) (c + 1)
        | _ => (text, tail, .nochar)
    | .nil => (text, tail, .nil)
    | _ => (text, tail, .other)

/-- abstraction from heap bytes back to (text, tail cell index, tail kind). -/
def denote (h : Heap) (c : Cell) : List Nat × Nat × TailKind :=
  readBack (2 * h.cellLen + 4) h c [] usizeMax

/-- byte length of the UTF-8 character starting with lead byte `b`. -/
def utf8LenOfLead (b : Nat) : Nat :=
  if b < 0x80 then 1 else if b < 0xE0 then 2 else if b < 0xF0 then 3 else 4

/-- `Heap::last_str_char_and_tail(loc)`: the bytes of the character at `loc` and either the
`PStrLoc` of the next character or the `heap_loc` of the tail cell. -/
def lastStrCharAndTail (h : Heap) (loc : Nat) : Option (List Nat × Cell) :=
  match (h.mem.take h.len).drop loc with
  | .data b :: _ =>
    let n := utf8LenOfLead b
    let chBytes := (((h.mem.take h.len).drop loc).take n).filterMap fun m =>
      match m with | .data x => some x | _ => none
    match (h.mem.take h.len).drop (loc + n) with
    | .data x :: _ =>
      if x = 0 then
        (scanSliceToStr h.mem h.len loc).map fun r => (chBytes, .heapLoc r.2)
      else some (chBytes, .pstrLoc (loc + n))
    | [] => (scanSliceToStr h.mem h.len loc).map fun r => (chBytes, .heapLoc r.2)
    | _ => none
  | _ => none

end Scryer.Heap
