/-
C21 — model of the three atom representations of src/atom_table.rs

  * inlined: a non-empty text of at most INLINED_ATOM_MAX_LEN = 6 bytes without a NUL byte is packed
    little-endian into the 48-bit name field (`AtomCell::new_inlined`, `u64::from_le_bytes`), the
    atom index is `(name << 1) | 1`; decoding (`inlined_to_str`) reads the 8 little-endian bytes of
    the flat index up to the first zero byte (or 6 bytes);
  * static: the texts of all `atom!("…")` literals that are not inlineable sit in `STRINGS`
    (build/static_string_indexing.rs, which makes the same inline decision at build time); index
    `i << 1`, found through `STATIC_ATOMS_MAP`;
  * dynamic: any other text is looked up in the `IndexSet` (hashed and compared by text) and, when
    absent, written behind an 8-byte header at the bump pointer of the block; index
    `(STRINGS.len() + offset) << 1`.

A text is the list of its UTF-8 bytes (`Nat`s below 256). The table is abstracted to the list of its
dynamic entries (offset, text) and the bump pointer; growing the block (`grow_new`) copies the bytes
and keeps every offset, so it is invisible here. Concurrency (the update lock / epochs) is outside
the model. Import-free.
-/
namespace Scryer.Atoms

abbrev Bytes := List Nat

/-- INLINED_ATOM_MAX_LEN of src/atom_table.rs and of build/static_string_indexing.rs. -/
def maxInline : Nat := 6

/-- `!string.is_empty() && string.len() <= INLINED_ATOM_MAX_LEN && !string.contains('\u{0}')`
    (`AtomTable::build_with` and `static_string_index`: the same expression in both files). -/
def inlineable (s : Bytes) : Bool :=
  !s.isEmpty && decide (s.length ≤ maxInline) && !s.contains 0

/-- `u64::from_le_bytes` of the text copied into a zeroed 8-byte buffer. -/
def packLE : Bytes → Nat
  | [] => 0
  | b :: r => b + 256 * packLE r

/-- the atom index of an inlined text: `(encoding << 1) | 1`. -/
def inlineIndex (s : Bytes) : Nat := packLE s * 2 + 1

/-- `u64::to_le_bytes`, the first `k` bytes. -/
def bytesLE : Nat → Nat → Bytes
  | 0, _ => []
  | k + 1, v => (v % 256) :: bytesLE k (v / 256)

/-- `inlined_to_str`: up to the first zero byte of the 8 bytes, else INLINED_ATOM_MAX_LEN bytes. -/
def inlinedToStr (flat : Nat) : Bytes :=
  let bs := bytesLE 8 flat
  match bs.findIdx? (· == 0) with
  | some p => bs.take p
  | none => bs.take maxInline

structure Table where
  statics : List Bytes          -- STRINGS
  dyn : List (Nat × Bytes)      -- (offset in the block, text) in insertion order
  next : Nat                    -- bump pointer of the block

/-- `size_of::<AtomHeader>() + len`, rounded up to the alignment 8. -/
def allocSize (s : Bytes) : Nat := (8 + s.length + 7) / 8 * 8

def findStatic : List Bytes → Bytes → Nat → Option Nat
  | [], _, _ => none
  | x :: r, s, i => if x = s then some i else findStatic r s (i + 1)

def findDyn : List (Nat × Bytes) → Bytes → Option Nat
  | [], _ => none
  | p :: r, s => if p.2 = s then some p.1 else findDyn r s

def findOff : List (Nat × Bytes) → Nat → Option Bytes
  | [], _ => none
  | p :: r, o => if p.1 = o then some p.2 else findOff r o

/-- `AtomTable::build_with`: the atom index of a text and the table afterwards. -/
def intern (t : Table) (s : Bytes) : Table × Nat :=
  if inlineable s then (t, inlineIndex s) else
  match findStatic t.statics s 0 with
  | some i => (t, 2 * i)
  | none =>
    match findDyn t.dyn s with
    | some off => (t, 2 * (t.statics.length + off))
    | none =>
      ({ t with dyn := t.dyn ++ [(t.next, s)], next := t.next + allocSize s },
       2 * (t.statics.length + t.next))

/-- `Atom::as_str`. -/
def text (t : Table) (idx : Nat) : Option Bytes :=
  if idx % 2 = 1 then some (inlinedToStr (idx / 2))
  else if idx / 2 < t.statics.length then t.statics[idx / 2]?
  else findOff t.dyn (idx / 2 - t.statics.length)

/-- `AtomCell::new_char_inlined` (used by `unify_char`, char_code/2 …): NUL is the static atom
    `"\0"`, every other character is inlined without consulting any table. `nulIndex` is
    `NULL_ATOM.flat_index()`. -/
def charIndex (nulIndex : Nat) (utf8 : Bytes) : Nat :=
  if utf8 = [0] then 2 * nulIndex else inlineIndex utf8

/-- the atom indices of a sequence of texts interned one after the other. -/
def internAll : Table → List Bytes → Table × List Nat
  | t, [] => (t, [])
  | t, s :: r =>
    let (t1, i) := intern t s
    let (t2, is) := internAll t1 r
    (t2, i :: is)

end Scryer.Atoms
