/-!
# Scryer.NumLex — the lexer's number path, number_chars/number_codes entry, exact float rounding

Import-free executable model mirroring `/repo/src/parser/lexer.rs`:

* reader state = the remaining `List Char`; `lookahead_char` = head (`[]` = end of file),
  `skip_char` = tail, `return_char c` = `c :: rest`;
* `scanForLayout` = `scan_for_layout` (+ `single_line_comment`, `bracketed_comment`);
* `skipUnderscore` = `skip_underscore_in_number`; `numberToken` = `number_token` (digit groups,
  `.` look-ahead, exponent back-out through `vacate_with_float`, `0x/0o/0b`, `0'c`);
* `singleQuotedChar`, `nonQuoteChar`, `escapeSeq`, `controlEscape` = the quoted-character readers;
* `nextNumberToken` = `next_number_token` (incl. the `Partial` case), `nameTokenMinus` = the part of
  `name_token` that can produce the atom `-`;
* `numberFromText` = `MachineState::parse_number_from_string` (`number_chars`, `number_codes`).

Floats: a float token denotes the exact decimal `m × 10^e` (`decOfToken`); `rneOK num den b` is the
*specification* of IEEE-754 binary64 round-to-nearest-even of the rational `num/den` to the bit
pattern `b` (magnitude, sign handled separately); `rne` is the executable rounding function.
The model describes the REPAIRED behaviour (correct rounding; `1_` at end of text rejected);
`Pinned.*` variants keep what the pinned commit does where that is expressible.
-/
namespace Scryer.NumLex

/-! ## errors (= `ParserErrorKind`, by the atom they are reported with) -/

inductive Err where
  | eof            -- unexpected_end_of_file
  | bigInt         -- cannot_parse_big_int
  | unexpChar (c : Char)   -- unexpected_char
  | incomplete     -- incomplete_reduction
  | utf8           -- utf8_conversion_error
  | infiniteFloat  -- infinite_float
  | other          -- a syntax error whose kind the model does not determine
  deriving DecidableEq, Repr

def Err.atom : Err → String
  | .eof => "unexpected_end_of_file"
  | .bigInt => "cannot_parse_big_int"
  | .unexpChar _ => "unexpected_char"
  | .incomplete => "incomplete_reduction"
  | .utf8 => "utf8_conversion_error"
  | .infiniteFloat => "infinite_float"
  | .other => "?"

/-! ## character classes (`src/parser/macros.rs`) -/

def isDigit (c : Char) : Bool := 48 ≤ c.toNat && c.toNat ≤ 57
def isOct (c : Char) : Bool := 48 ≤ c.toNat && c.toNat ≤ 55
def isBin (c : Char) : Bool := c.toNat == 48 || c.toNat == 49
def isHex (c : Char) : Bool :=
  isDigit c || (65 ≤ c.toNat && c.toNat ≤ 70) || (97 ≤ c.toNat && c.toNat ≤ 102)

/-- value of a digit character in any radix ≤ 16 (0 for a non-digit; guarded by `validIn`). -/
def digitVal (c : Char) : Nat :=
  if isDigit c then c.toNat - 48
  else if 97 ≤ c.toNat && c.toNat ≤ 102 then c.toNat - 87
  else if 65 ≤ c.toNat && c.toNat ≤ 70 then c.toNat - 55
  else 0

def isLayout (c : Char) : Bool :=
  c.toNat == 32 || c.toNat == 13 || c.toNat == 10 || c.toNat == 9 || c.toNat == 11 || c.toNat == 12

def isGraphic (c : Char) : Bool :=
  c == '#' || c == '$' || c == '&' || c == '*' || c == '+' || c == '-' || c == '.' || c == '/' ||
  c == ':' || c == '<' || c == '=' || c == '>' || c == '?' || c == '@' || c == '^' || c == '~'

def isGraphicToken (c : Char) : Bool := isGraphic c || c == '\\'

def isMeta (c : Char) : Bool := c == '\\' || c == '\'' || c == '"' || c == '`'

/-- Unicode `Cc` (Rust `char::is_control`). -/
def isControl (c : Char) : Bool := c.toNat < 32 || (127 ≤ c.toNat && c.toNat ≤ 159)

/-- Unicode `White_Space` (Rust `char::is_whitespace`). -/
def isWhitespace (c : Char) : Bool :=
  let n := c.toNat
  (9 ≤ n && n ≤ 13) || n == 32 || n == 0x85 || n == 0xA0 || n == 0x1680 ||
  (0x2000 ≤ n && n ≤ 0x200A) || n == 0x2028 || n == 0x2029 || n == 0x202F || n == 0x205F ||
  n == 0x3000

/-- the characters `get_non_quote_char` accepts unescaped:
    `graphic_char || alpha_numeric_char || solo_char || space_char`. With the definitions of
    macros.rs this is: the space, or anything that is neither white space, a control character
    nor a meta character (numeric characters are never white space/control/meta). -/
def isPlainQuotedChar (c : Char) : Bool :=
  c == ' ' || (!isWhitespace c && !isControl c && !isMeta c)

/-- longest prefix of characters satisfying `p`, and the rest (the lexer's `while p(c) { push; skip }`). -/
def spanP (p : Char → Bool) : List Char → List Char × List Char
  | [] => ([], [])
  | c :: r =>
    if p c then
      let q := spanP p r
      (c :: q.1, q.2)
    else ([], c :: r)

/-! ## integers from digit strings (`parse_integer_by_radix`) -/

def validIn (radix : Nat) (c : Char) : Bool :=
  if radix == 2 then isBin c else if radix == 8 then isOct c
  else if radix == 10 then isDigit c else isHex c

/-- Horner evaluation, most significant digit first. -/
def hornerFrom (radix : Nat) (acc : Nat) : List Char → Nat
  | [] => acc
  | c :: cs => hornerFrom radix (acc * radix + digitVal c) cs

def horner (radix : Nat) (tok : List Char) : Nat := hornerFrom radix 0 tok

/-- `i64::from_str_radix` falling back to `Integer::from_str_radix`: any size, exact; the error
    branch (empty or ill-formed token) is explicit. -/
def parseRadix (radix : Nat) (tok : List Char) : Except Err Nat :=
  if tok.isEmpty || !tok.all (validIn radix) then .error .bigInt else .ok (horner radix tok)

/-! ## float tokens: the exact decimal value -/

/-- exponent digits with optional sign → integer -/
def expOfToken : List Char → Int
  | '+' :: ds => (horner 10 ds : Int)
  | '-' :: ds => - (horner 10 ds : Int)
  | ds => (horner 10 ds : Int)

/-- a float token `I.F` or `I.F(e|E)[+-]X` denotes `m × 10^e` with `m = horner (I ++ F)` and
    `e = X - |F|`. (`lexical::parse` with the STANDARD format accepts exactly what the lexer
    assembles; only the VALUE is specified here.) -/
def decOfToken (tok : List Char) : Nat × Int :=
  let (ip, r1) := spanP isDigit tok
  let r1 := r1.drop 1                       -- the '.'
  let (fp, r2) := spanP isDigit r1
  let ex : Int := match r2 with
    | [] => 0
    | _ :: ex => expOfToken ex            -- skip 'e' / 'E'
  (horner 10 (ip ++ fp), ex - (fp.length : Int))

/-! ## layout (`scan_for_layout`) as one structurally recursive scanner -/

inductive LState where
  | base | line | block | blockStar
  deriving DecidableEq, Repr

/-- returns (`layout_info.inserted`, remaining input) -/
def scanL : LState → Bool → List Char → Except Err (Bool × List Char)
  | .base, ins, [] => .ok (ins, [])
  | .base, ins, c :: r =>
    if isLayout c then scanL .base true r
    else if c == '%' then scanL .line ins r
    else if c == '/' then
      match r with
      | [] => .error .eof                       -- `lookahead_char()?` after skipping '/'
      | d :: r' =>
        if d == '*' then
          (if r'.isEmpty then .error .eof          -- `lookahead_char()?` after skipping '*'
           else scanL .block ins r')
        else .ok (ins, c :: r)                   -- return_char('/'); more = false
    else .ok (ins, c :: r)
  | .line, _, [] => .ok (true, [])
  | .line, ins, c :: r => if c == '\n' then scanL .base true r else scanL .line ins r
  | .block, _, [] => .error .incomplete
  | .block, ins, c :: r => if c == '*' then scanL .blockStar ins r else scanL .block ins r
  | .blockStar, _, [] => .error .incomplete
  | .blockStar, ins, c :: r =>
    if c == '/' then scanL .base true r
    else if c == '*' then scanL .blockStar ins r
    else scanL .block ins r

def scanForLayout : List Char → Except Err (Bool × List Char)
  | [] => .error .eof
  | l => scanL .base false l

/-! ## quoted characters (`get_single_quoted_char`, `get_non_quote_char`, escapes) -/

/-- `\a \b \v \f \t \n \r` -/
def controlEscape (c : Char) : Option Nat :=
  if c == 'a' then some 7 else if c == 'b' then some 8 else if c == 'v' then some 11
  else if c == 'f' then some 12 else if c == 't' then some 9 else if c == 'n' then some 10
  else if c == 'r' then some 13 else none

def isScalar (n : Nat) : Bool := n < 0xD800 || (0xDFFF < n && n ≤ 0x10FFFF)

/-- `escape_sequence_to_char`: `r` starts with the first digit (pushed unconditionally). -/
def escapeSeq (acc : Char → Bool) (radix : Nat) : List Char → Except Err (Nat × List Char)
  | [] => .error .eof
  | c :: r =>
    let (ds, rest) := spanP acc r
    match rest with
    | [] => .error .eof
    | t :: rest' =>
      if t == '\\' then
        let n := horner radix (c :: ds)
        if n > 0xFFFFFFFF then .error .bigInt          -- u32::from_str_radix overflow
        else if !isScalar n then .error .utf8          -- char::try_from
        else .ok (n, rest')
      else .error .incomplete

def nonQuoteChar : List Char → Except Err (Nat × List Char)
  | [] => .error .eof
  | c :: r =>
    if isPlainQuotedChar c then .ok (c.toNat, r)
    else if c != '\\' then .error (.unexpChar c)
    else match r with
      | [] => .error .eof
      | d :: r' =>
        if isMeta d then .ok (d.toNat, r')
        else if isOct d then escapeSeq isOct 8 r
        else if d == 'x' then
          match r' with
          | [] => .error .eof
          | h :: _ => if isHex h then escapeSeq isHex 16 r' else .error .incomplete
        else match controlEscape d with
          | some n => .ok (n, r')
          | none => .error (.unexpChar d)

def singleQuotedChar : List Char → Except Err (Nat × List Char)
  | [] => .error .eof
  | c :: r =>
    if c == '\'' then
      match r with
      | [] => .error .eof
      | c2 :: r' => if c2 == '\'' then .ok (39, r') else .error (.unexpChar '\'')   -- + return_char
    else if c == '"' || c == '`' then .ok (c.toNat, r)
    else nonQuoteChar (c :: r)

/-! ## `number_token` -/

/-- what the lexer hands on: an integer, the exact decimal of a float token, or `Partial`. -/
inductive NumTok where
  | int (n : Nat)
  | dec (m : Nat) (e : Int)
  | part (tok : List Char)
  deriving DecidableEq, Repr

abbrev LexRes := Except Err (NumTok × List Char)

/-- `skip_underscore_in_number`: the look-ahead character and the reader (positioned AT it). -/
def skipUnderscore : List Char → Except Err (Char × List Char)
  | [] => .error .eof
  | c :: r =>
    if c == '_' then
      match scanForLayout r with
      | .error e => .error e
      | .ok (_, r') =>
        match r' with
        | [] => .error .eof
        | d :: _ => if isDigit d then .ok (d, r') else .error .bigInt
    else .ok (c, c :: r)

def mkInt (tok : List Char) (rest : List Char) : LexRes :=
  match parseRadix 10 tok with
  | .ok n => .ok (.int n, rest)
  | .error e => .error e

def mkDec (tok : List Char) (rest : List Char) : LexRes :=
  let (m, e) := decOfToken tok
  .ok (.dec m e, rest)

/-- `0x…`, `0o…`, `0b…` after the leading `0`; `start :: r1` is the input at the radix letter.
    No digit after the letter: the letter is returned and the token is the integer `0`. -/
def radixConstant (isDig : Char → Bool) (radix : Nat) (start : Char) (r1 : List Char) : LexRes :=
  match r1 with
  | [] => .error .eof
  | c :: _ =>
    if isDig c then
      let (ds, rest) := spanP isDig r1
      match parseRadix radix ds with
      | .ok n => .ok (.int n, rest)
      | .error _ => mkInt ['0'] rest         -- (`or_else` on ParseBigInt; unreachable for digits)
    else mkInt ['0'] (start :: r1)

/-- the `0'` branch; `r1` is the input after the quote. -/
def quoteConstant (r1 : List Char) : LexRes :=
  match r1 with
  | [] => .error .eof
  | c :: r2 =>
    -- `0'\<newline>`: the integer 0, and a quote is put back
    if c == '\\' && (match r2 with | [] => false | d :: _ => d == '\n') then
      .ok (.int 0, '\'' :: r2.drop 1)
    else if c == '\\' && r2.isEmpty then .error .eof
    else
      match singleQuotedChar r1 with
      | .ok (n, rest) => .ok (.int n, rest)
      | .error (.unexpChar '\'') => mkInt ['0'] ('\'' :: r1)     -- `0''x`: 0, both quotes put back
      | .error e => .error e

/-- after the digits of the exponent marker: `tok` ends with `e`/`E`, reader `r1` is after it;
    `ec` is that marker (for the back-out). -/
def exponentPart (tok : List Char) (ec : Char) (r1 : List Char) : LexRes :=
  let tokE := tok ++ [ec]
  match r1 with
  | [] => mkDec tok [ec]                                   -- vacate_with_float
  | c :: r2 =>
    if c == '+' || c == '-' then
      match r2 with
      | [] => mkDec tok [ec, c]
      | d :: _ =>
        if isDigit d then
          let (ds, rest) := spanP isDigit r2
          if rest.isEmpty then .ok (.part (tokE ++ c :: ds), []) else mkDec (tokE ++ c :: ds) rest
        else mkDec tok (ec :: c :: r2)
    else if isDigit c then
      let (ds, rest) := spanP isDigit r1
      if rest.isEmpty then .ok (.part (tokE ++ ds), []) else mkDec (tokE ++ ds) rest
    else mkDec tok (ec :: r1)

/-- after the integer digits: `tok` = digits read, `c :: r` = reader with look-ahead `c`. -/
def afterInt (tok : List Char) (c : Char) (r : List Char) : LexRes :=
  if c == '.' then
    match r with
    | [] => mkInt tok ['.']
    | d :: r' =>
      if isDigit d then
        let (ds, rest) := spanP isDigit r'
        let tokF := tok ++ '.' :: d :: ds
        match rest with
        | [] => .ok (.part tokF, [])
        | x :: rest' =>
          if x == 'e' || x == 'E' then exponentPart tokF x rest' else mkDec tokF rest
      else mkInt tok (c :: r)
  else if tok == ['0'] then
    if c == 'x' then radixConstant isHex 16 c r
    else if c == 'o' then radixConstant isOct 8 c r
    else if c == 'b' then radixConstant isBin 2 c r
    else if c == '\'' then quoteConstant r
    else mkInt tok (c :: r)
  else mkInt tok (c :: r)

/-- the integer-part loop of `number_token` (fuel ≥ length of the input + 1 always suffices).
    `strict`: the repaired treatment of a `_` that is followed by nothing but layout/end of text
    (error instead of `Partial`); `strict = false` is the pinned commit. -/
def intPart (strict : Bool) : Nat → List Char → List Char → LexRes
  | 0, _, _ => .error .other
  | fuel + 1, tok, r =>
    match skipUnderscore r with
    | .error .eof =>
      if strict && !r.isEmpty then .error .bigInt else .ok (.part tok, [])     -- try_nt!
    | .error e => .error e
    | .ok (c, r') =>
      if isDigit c then intPart strict fuel (tok ++ [c]) (r'.drop 1)
      else afterInt tok c (r'.drop 1)

/-- `number_token(leading_c)` with the reader at the leading digit. -/
def numberToken (strict : Bool) : List Char → LexRes
  | [] => .error .eof
  | c :: r => intPart strict (r.length + 1) [c] r

/-! ## `next_number_token`, the `-` name token, `parse_number_from_string` -/

/-- a `Partial` token at the end of the text is completed (`parse_integer`, else float). -/
def completePartial : NumTok → NumTok
  | .part tok =>
    if tok.all isDigit then .int (horner 10 tok) else
      let (m, e) := decOfToken tok
      .dec m e
  | t => t

/-- `consume_chars_with!(token, get_single_quoted_item())` followed by the closing quote:
    the codes of a quoted atom; `none` = not a well-formed quoted atom (some syntax error). -/
def quotedAtom : Nat → List Char → List Nat → Option (List Nat × List Char)
  | 0, _, _ => none
  | _ + 1, [], _ => none
  | fuel + 1, c :: r, acc =>
    if c == '\\' && (match r with | d :: _ => d == '\n' | [] => false) then
      quotedAtom fuel (r.drop 1) acc                      -- continuation line
    else
      match singleQuotedChar (c :: r) with
      | .ok (n, rest) => quotedAtom fuel rest (acc ++ [n])
      | .error (.unexpChar _) =>
        -- `get_single_quoted_char` returned the quote it consumed (or consumed nothing)
        if c == '\'' then some (acc, r) else none
      | .error _ => none

inductive FirstTok where
  | num (t : NumTok)
  | minus
  | notNumber
  deriving DecidableEq, Repr

/-- `next_number_token` -/
def nextNumberToken (strict : Bool) (s : List Char) : Except Err (FirstTok × List Char) :=
  match scanForLayout s with
  | .error e => .error e
  | .ok (_, r) =>
    match r with
    | [] => .error .eof
    | c :: r' =>
      if isDigit c then
        match numberToken strict r with
        | .ok (t, rest) => .ok (.num (completePartial t), rest)
        | .error e => .error e
      else if isGraphicToken c then
        -- name_token: the maximal run of graphic token characters; end of text → error
        let (run, rest) := spanP isGraphicToken r
        if rest.isEmpty then .error .eof
        else if run == ['-'] then .ok (.minus, rest) else .ok (.notNumber, rest)
      else if c == '\'' then
        match quotedAtom (r'.length + 1) r' [] with
        | some (codes, rest) => if codes == [45] then .ok (.minus, rest) else .ok (.notNumber, rest)
        | none => .error .other
      else .ok (.notNumber, r)

/-! ## binary64 rounding -/

def two52 : Nat := 4503599627370496
def infBits : Nat := 0x7FF0000000000000
def signBit : Nat := 0x8000000000000000
/-- the scale of the integer grid: every finite double is a multiple of `2^-1074` -/
def scale : Nat := 2 ^ 1074

/-- the value of the non-negative bit pattern `b`, scaled by `2^1074` (an integer):
    subnormals `f·2^-1074`, normals `(2^52+f)·2^(E-1075)`. `V infBits = 2^1024·2^1074`. -/
def V (b : Nat) : Nat :=
  if b < two52 then b else (two52 + b % two52) * 2 ^ (b / two52 - 1)

/-- SPECIFICATION: the magnitude bit pattern `b` is the round-to-nearest-even image of the
    rational `num/den` (`den > 0`): `num/den` lies between the midpoints to the neighbouring
    patterns, a midpoint itself belonging to the even pattern; everything from the midpoint
    between the largest finite double and `2^1024` upwards goes to `infBits`. -/
def rneOK (num den b : Nat) : Bool :=
  let x2 := 2 * (num * scale)
  decide (b ≤ infBits) &&
  (b == 0 ||
    (if b % 2 == 0 then decide ((V (b - 1) + V b) * den ≤ x2)
     else decide ((V (b - 1) + V b) * den < x2))) &&
  (b == infBits ||
    (if b % 2 == 0 then decide (x2 ≤ (V b + V (b + 1)) * den)
     else decide (x2 < (V b + V (b + 1)) * den)))

/-- the pattern whose value is the largest grid value `≤ N/2^1074` (`N` = scaled integer). -/
def floorBits (N : Nat) : Nat :=
  if N < two52 then N
  else
    let s := Nat.log2 N - 52
    s * two52 + N / 2 ^ s

/-- executable round-to-nearest-even of `num/den` (`den > 0`) to a magnitude bit pattern. -/
def rne (num den : Nat) : Nat :=
  let X := num * scale
  let b := floorBits (X / den)
  if b ≥ infBits then infBits
  else
    let lhs := 2 * X
    let rhs := (V b + V (b + 1)) * den
    if lhs < rhs then b
    else if lhs = rhs then (if b % 2 == 0 then b else b + 1)
    else b + 1

def pow10 (n : Nat) : Nat := 10 ^ n

/-- number of decimal digits of `m` (`0` for `0`) -/
def numDigits : Nat → Nat → Nat
  | 0, _ => 0
  | fuel + 1, m => if m = 0 then 0 else 1 + numDigits fuel (m / 10)

/-- the bit pattern (magnitude) of the exact decimal `m × 10^e`, guarded so that no huge power
    is ever computed: beyond `10^310` the result is `infBits`, below `10^-330` it is `0`. -/
def decToBits (m : Nat) (e : Int) : Nat :=
  if m = 0 then 0
  else
    let nd : Int := (numDigits (m + 1) m : Nat)
    if nd + e > 310 then infBits
    else if nd + e < -330 then 0
    else if e ≥ 0 then rne (m * pow10 e.toNat) 1
    else rne m (pow10 (-e).toNat)

/-! ## values and the number_chars / number_codes entry -/

inductive Num where
  | int (v : Int)
  | flt (bits : Nat)          -- 64-bit pattern
  deriving DecidableEq, Repr

/-- `shift_token`: an infinite float literal is a syntax error; `negate_number` under a `-`.
    `-0.0` is the same number as `0.0` in this system (floats are interned by `==`). -/
def tokValue (neg : Bool) : NumTok → Except Err Num
  | .int n => .ok (.int (if neg then - (n : Int) else n))
  | .dec m e =>
    let b := decToBits m e
    if b ≥ infBits then .error .infiniteFloat
    else .ok (.flt (if neg && b ≠ 0 then signBit + b else b))
  | .part _ => .error .other

/-- `parse_number_from_string`: `layout* number` or `layout* - layout* number`, then end of text. -/
def numberFromTextG (strict : Bool) (s : List Char) : Except Err Num :=
  match nextNumberToken strict s with
  | .error e => .error e
  | .ok (.num t, rest) =>
    if rest.isEmpty then tokValue false t
    else .error (.unexpChar (rest.headD ' '))
  | .ok (.minus, rest) =>
    match nextNumberToken strict rest with
    | .ok (.num t, rest') =>
      if rest'.isEmpty then tokValue true t else .error (.unexpChar (rest'.headD ' '))
    | _ => .error .other
  | .ok (.notNumber, _) => .error .other

def numberFromText : List Char → Except Err Num := numberFromTextG true

namespace Pinned
/-- the pinned commit: `12_` at the end of the text is accepted as `12`. -/
def numberFromText : List Char → Except Err Num := numberFromTextG false
end Pinned

/-! ## number → text -/

def digitChar (d : Nat) : Char := Char.ofNat (48 + d)

def showNatAux : Nat → Nat → List Char → List Char
  | 0, _, acc => acc
  | fuel + 1, n, acc =>
    let acc' := digitChar (n % 10) :: acc
    if n / 10 = 0 then acc' else showNatAux fuel (n / 10) acc'

/-- decimal digits, most significant first, no leading zero (`to_string`). -/
def showNat (n : Nat) : List Char := showNatAux (n + 1) n []

def showInt (i : Int) : List Char :=
  if i < 0 then '-' :: showNat i.natAbs else showNat i.natAbs

/-- SPECIFICATION of float printing (checked on the implementation's output, not computed): the
    significand digits `D` and decimal exponent `k` printed for the finite pattern `b`
    read back to `b`, and no decimal with fewer significant digits does (the two multiples of
    `10^(k+1)` around `D·10^k` fall outside the rounding interval of `b`). -/
def decRoundsTo (m : Nat) (e : Int) (b : Nat) : Bool :=
  if e ≥ 0 then rneOK (m * pow10 e.toNat) 1 b else rneOK m (pow10 (-e).toNat) b

def shortestOK (D : Nat) (k : Int) (b : Nat) : Bool :=
  decRoundsTo D k b &&
  (D < 10 || (!decRoundsTo (D / 10) (k + 1) b && !decRoundsTo (D / 10 + 1) (k + 1) b))

end Scryer.NumLex
