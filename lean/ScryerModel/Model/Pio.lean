import ScryerModel.Model.Utf8
import ScryerModel.Model.Stream
/-
Model of `src/lib/pio.pl` `phrase_from_file/2,3` / `phrase_from_stream/2`: the lazy list
`stream_to_lazy_list(true, Stream, Ls)` = a frozen variable whose wake-up goal
`render_step/4` repositions the stream to the byte position recorded when the variable was frozen,
tests `at_end_of_stream`, reads one block of `chars_to_read(4096)` CHARACTERS with
`get_n_chars/3`, binds the variable to the block as a partial string and freezes the new tail with
the new position.

`readBlock k bytes pos` is one `render_step`: `Stream.takeChars` (C19's model of the
`$get_n_chars` loop: `k` characters decoded from the bytes at byte offset `pos`). Block boundaries
are counted in characters, the recorded positions are byte offsets; a multi-byte character is never
split. `LL` is the partially materialised list (`have` = cells bound so far, `off` = byte position
stored in the frozen tail's goal, `fin` = the tail has been bound to `[]`, `reads` = blocks read).
`cellAt` is what a grammar observes when it unifies cell `n` (after the cells before it).
Import-free apart from the C18/C19 models.
-/
namespace Scryer.Pio
open Scryer.Utf8 Scryer.Stream

/-- the blocks of a character list: what the lazy list is made of. -/
def chunksF : Nat → Nat → List Nat → List (List Nat)
  | 0, _, _ => []
  | fuel+1, k, s => if s = [] then [] else s.take k :: chunksF fuel k (s.drop k)

/-- `chunks k s` for `k ≥ 1` (`s.length` blocks suffice as fuel). -/
def chunks (k : Nat) (s : List Nat) : List (List Nat) := chunksF s.length k s

/-- one `render_step` at byte position `pos`: `none` when `at_end_of_stream` (the tail becomes
    `[]`), otherwise the block of at most `k` characters and the byte position after it. -/
def readBlock (k : Nat) (bytes : List Nat) (pos : Nat) : Option (List Nat × Nat) :=
  if pos = bytes.length then none
  else
    let r := takeChars k (bytes.drop pos)
    some (r.1, pos + r.2)

/-- forcing the whole list: all blocks in order. -/
def renderAll : Nat → Nat → List Nat → Nat → List (List Nat)
  | 0, _, _, _ => []
  | fuel+1, k, bytes, pos =>
    match readBlock k bytes pos with
    | none => []
    | some (blk, pos') => blk :: renderAll fuel k bytes pos'

/-- the character list that `phrase_from_file` hands to the grammar, fully forced. -/
def lazyChars (k : Nat) (bytes : List Nat) : List Nat :=
  (renderAll (bytes.length + 1) k bytes 0).flatten

/-- the partially materialised lazy list. -/
structure LL where
  have_ : List Nat
  off : Nat
  fin : Bool
  reads : Nat
  deriving Repr, DecidableEq

def LL.init : LL := { have_ := [], off := 0, fin := false, reads := 0 }

/-- waking the frozen tail once. -/
def forceStep (k : Nat) (bytes : List Nat) (l : LL) : LL :=
  if l.fin then l else
  match readBlock k bytes l.off with
  | none => { l with fin := true }
  | some (blk, pos') => { have_ := l.have_ ++ blk, off := pos', fin := false, reads := l.reads + 1 }

/-- unifying cell number `n` (0-based) with a list pattern wakes the tail until that cell exists
    or the list has ended. -/
def demand : Nat → Nat → List Nat → Nat → LL → LL
  | 0, _, _, _, l => l
  | fuel+1, k, bytes, n, l =>
    if l.fin || decide (n < l.have_.length) then l
    else demand fuel k bytes n (forceStep k bytes l)

/-- the cell number `n` of the lazy list as a grammar sees it (`none` = the list has ended
    before), together with the state of the list afterwards. -/
def cellAt (k : Nat) (bytes : List Nat) (n : Nat) (l : LL) : Option Nat × LL :=
  let l' := demand (n + 2) k bytes n l
  (l'.have_[n]?, l')

end Scryer.Pio
