/-
IEEE-754 binary64 as bit patterns, with exact arithmetic (C02).

A double is its 64-bit pattern `F64.bits : Nat` (sign · 2^63 + biased exponent · 2^52 + mantissa).
Every finite double is an integer multiple of 2^-1074, so the exact value of a finite `x` is
`± x.scaled / 2^1074` with `x.scaled : Nat`; all exact computations below are done on these integers.

`rne neg n d` is round-to-nearest, ties-to-even, of the non-negative rational `n/d` (sign supplied
separately so that signed zeros can be produced), overflowing to ±inf exactly as IEEE prescribes.
`addF mulF divF sqrtF truncF` are the IEEE operations (total: NaN/inf operands handled) defined through
`rne` on the exact result. This is what the hardware / `dashu::to_f64` is *expected* to compute; the
correspondence run compares bit patterns.

This file imports nothing.
-/
namespace Scryer.ArithFloat

structure F64 where
  bits : Nat
  deriving DecidableEq, Repr, Inhabited

/-- 2^1074: every finite double is `scaled / P`. -/
def P : Nat := 2 ^ 1074
def SIGN_BIT : Nat := 2 ^ 63
def HIDDEN : Nat := 2 ^ 52
/-- magnitude bits of +inf (exponent field 2047, mantissa 0). -/
def INF_MAG : Nat := 2047 * 2 ^ 52

namespace F64

/-- a genuine 64-bit pattern. -/
def wf (x : F64) : Prop := x.bits < 2 ^ 64

def sign (x : F64) : Bool := decide (SIGN_BIT ≤ x.bits)
/-- the low 63 bits (exponent field and mantissa). -/
def mag (x : F64) : Nat := x.bits % SIGN_BIT
def expo (x : F64) : Nat := x.mag / HIDDEN
def mant (x : F64) : Nat := x.mag % HIDDEN

def isNaN (x : F64) : Bool := decide (INF_MAG < x.mag)
def isInf (x : F64) : Bool := decide (x.mag = INF_MAG)
def isFinite (x : F64) : Bool := decide (x.mag < INF_MAG)
def isZero (x : F64) : Bool := decide (x.mag = 0)
def isSubnormal (x : F64) : Bool := decide (0 < x.mag) && decide (x.mag < HIDDEN)
def isNormal (x : F64) : Bool := decide (HIDDEN ≤ x.mag) && decide (x.mag < INF_MAG)

/-- significand (with the hidden bit for normal numbers). -/
def sig (x : F64) : Nat := if x.mag < HIDDEN then x.mag else HIDDEN + x.mant
/-- exponent of the unit in the last place, offset by 1074: `|x| = sig · 2^(ulpExp - 1074)`. -/
def ulpExp (x : F64) : Nat := if x.mag < HIDDEN then 0 else x.expo - 1
/-- `|x| · 2^1074` as a natural number (meaningful for finite `x`). -/
def scaled (x : F64) : Nat := x.sig * 2 ^ x.ulpExp
/-- the signed integer `x · 2^1074` (finite `x`). -/
def scaledInt (x : F64) : Int := if x.sign then -(x.scaled : Int) else (x.scaled : Int)
/-- exact value of a finite double as a fraction `num / den` (not in lowest terms). -/
def toFrac (x : F64) : Int × Nat := (x.scaledInt, P)

end F64

/-- assemble from sign and magnitude bits. -/
def mk (neg : Bool) (mag : Nat) : F64 := ⟨(if neg then SIGN_BIT else 0) + mag⟩

def posZero : F64 := mk false 0
def negZero : F64 := mk true 0
def inf (neg : Bool) : F64 := mk neg INF_MAG
/-- the canonical quiet NaN. -/
def nan : F64 := mk false (INF_MAG + 2 ^ 51)
def one : F64 := mk false (1023 * 2 ^ 52)
def maxFinite : F64 := mk false (INF_MAG - 1)

/-! ### rounding -/

/-- nearest integer to `N / D`, ties to even. -/
def roundHalfEven (N D : Nat) : Nat :=
  let q := N / D
  let r := N % D
  if 2 * r < D then q else if D < 2 * r then q + 1 else if q % 2 = 0 then q else q + 1

/-- exponent (offset by 1074) of the rounding grid for a value whose floor in units of 2^-1074 is `t`:
    0 up to the end of the first normal binade, then `⌊log2 t⌋ - 52`. -/
def unitExp (t : Nat) : Nat := if t < 2 ^ 53 then 0 else Nat.log2 t - 52

/-- magnitude bits of the double nearest to `n / d` (`d > 0`), ties to even; `INF_MAG` on overflow. -/
def rneMag (n d : Nat) : Nat :=
  let N0 := n * P
  let u := unitExp (N0 / d)
  let m := roundHalfEven N0 (d * 2 ^ u)
  let mag := u * 2 ^ 52 + m
  if INF_MAG ≤ mag then INF_MAG else mag

/-- round-to-nearest-even of `(-1)^neg · n / d`. -/
def rne (neg : Bool) (n d : Nat) : F64 := mk neg (rneMag n d)

/-- nearest double to an integer (`i64 as f64`, `IBig::to_f64`). -/
def ofInt (v : Int) : F64 := rne (decide (v < 0)) v.natAbs 1
/-- nearest double to a fraction (`RBig::to_f64`). -/
def ofFrac (num : Int) (den : Nat) : F64 := rne (decide (num < 0)) num.natAbs den

/-! ### IEEE operations (round-to-nearest-even mode) -/

def negF (x : F64) : F64 := mk (!x.sign) x.mag
def absF (x : F64) : F64 := mk false x.mag

def addF (x y : F64) : F64 :=
  if x.isNaN || y.isNaN then nan
  else if x.isInf then (if y.isInf && (x.sign != y.sign) then nan else x)
  else if y.isInf then y
  else
    let s := x.scaledInt + y.scaledInt
    if s = 0 then
      -- an exact zero sum is +0 unless both operands are -0
      (if x.isZero && y.isZero && x.sign && y.sign then negZero else posZero)
    else rne (decide (s < 0)) s.natAbs P

def subF (x y : F64) : F64 := addF x (negF y)

def mulF (x y : F64) : F64 :=
  let neg := x.sign != y.sign
  if x.isNaN || y.isNaN then nan
  else if x.isInf || y.isInf then (if x.isZero || y.isZero then nan else inf neg)
  else rne neg (x.scaled * y.scaled) (P * P)

def divF (x y : F64) : F64 :=
  let neg := x.sign != y.sign
  if x.isNaN || y.isNaN then nan
  else if x.isInf then (if y.isInf then nan else inf neg)
  else if y.isInf then mk neg 0
  else if y.isZero then (if x.isZero then nan else inf neg)
  else rne neg x.scaled y.scaled

/-- IEEE square root: correctly rounded. `√(X/2^1074) = √(X·2^128) / 2^601`; the integer square root
    `s` has ≥ 65 bits, so a sticky bit decides the rounding. -/
def sqrtF (x : F64) : F64 :=
  if x.isNaN then nan
  else if x.isZero then x
  else if x.sign then nan
  else if x.isInf then x
  else
    let X := x.scaled * 2 ^ 128
    let s := Nat.sqrt X
    let sticky := if s * s = X then 0 else 1
    rne false (2 * s + sticky) (2 * 2 ^ 601)

/-- `f64::trunc`: integral part, sign kept (so `trunc(-0.5) = -0.0`). -/
def truncF (x : F64) : F64 :=
  if x.isFinite then rne x.sign (x.scaled / P) 1 else x

/-- `f64::fract`: `self - self.trunc()`. -/
def fractF (x : F64) : F64 := subF x (truncF x)

/-- `f64::signum` (±1.0, NaN for NaN). -/
def signumF (x : F64) : F64 := if x.isNaN then nan else mk x.sign one.mag

/-! ### exact integer roundings of a finite double -/

/-- ⌊x⌋ -/
def floorZ (x : F64) : Int := Int.fdiv x.scaledInt (P : Int)
/-- round half away from zero (`f64::round`). -/
def roundZ (x : F64) : Int :=
  let r : Int := ((2 * x.scaled + P) / (2 * P) : Nat)
  if x.sign then -r else r
/-- is the (finite) value an integer? (`f == f.floor()`) -/
def isIntegral (x : F64) : Bool := decide (x.scaled % P = 0)

/-! ### ordering (`OrderedFloat`): NaN is the greatest and equal to itself; `-0.0 = 0.0` -/

def key (x : F64) : Int := if x.sign then -(x.mag : Int) else (x.mag : Int)

def cmpF (x y : F64) : Ordering :=
  if x.isNaN then (if y.isNaN then .eq else .gt)
  else if y.isNaN then .lt
  else compare (key x) (key y)

end Scryer.ArithFloat
