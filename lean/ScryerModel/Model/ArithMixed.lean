import ScryerModel.Model.ArithInt
import ScryerModel.Model.ArithFloat
/-
Model of float and mixed-type evaluation (C02): `src/arithmetic.rs` (`classify_float`, `rnd_f`, `result_f`,
`float_*_to_f`, `add_f mul_f div_f`, `Div for Number`, `rnd_i`) and `src/machine/arithmetic_ops.rs`
(`add neg abs sub mul div float_pow int_pow pow float unary_float_fn_template max min rdiv atan2 sin …
sqrt floor ceiling truncate round`, `Number::sign/is_zero/is_negative` of `src/forms.rs`).

* `Number` = `Fixnum`/`Integer` (`Arith.Num`, shared with C01) | `Rational` (lowest terms, den > 0) | `Float`.
* every `?`/`classify_float` of the Rust code is an explicit test; branch order is the code's.
* hardware `+ * /`, `sqrt`, `trunc`, `round`, `floor`, `as f64`, and dashu's `to_f64` are modelled by the exact
  IEEE result (`ArithFloat`); the transcendental functions are the parameter `Libm` (partial, so that the
  driver can ask the host for values it does not have: a total libm never produces `Err.miss`).
* `Cfg.pinnedRndI = true` reproduces the pinned `rnd_i` (finding C02-1); the theorems are about `false`.
-/
namespace Scryer.ArithMixed
open Scryer.Arith (Num)
open Scryer.ArithFloat

inductive Number where
  | int (n : Num)
  | rat (num : Int) (den : Nat)
  | flt (f : F64)
  deriving Repr, DecidableEq, Inhabited

inductive Err where
  | zeroDivisor
  | undefined
  | floatOverflow
  | typeFloat (culprit : Int)        -- type_error(float, N)
  | inst                             -- instantiation_error (rational_from_number of a non-finite float)
  | panic                            -- `todo!()` / `unreachable!()` / debug assertion
  | miss (op : String) (a b : Nat)   -- the partial libm has no value here (driver protocol only)
  deriving Repr, DecidableEq

abbrev R := Except Err Number

inductive Fn1 where
  | sin | cos | tan | log | exp | asin | acos | atan
  deriving Repr, DecidableEq

def Fn1.name : Fn1 → String
  | .sin => "sin" | .cos => "cos" | .tan => "tan" | .log => "log" | .exp => "exp"
  | .asin => "asin" | .acos => "acos" | .atan => "atan"

/-- the host's floating-point library: results of `f64::sin …`, `powf`, `atan2` (bit patterns). -/
structure Libm where
  fn1 : Fn1 → F64 → Option F64
  pow : F64 → F64 → Option F64
  atan2 : F64 → F64 → Option F64

structure Cfg where
  libm : Libm
  /-- reproduce the pinned range test of `rnd_i` (`f ≤ Fixnum::MAX as f64`, which is 2^55). -/
  pinnedRndI : Bool := false

/-! ### rationals (dashu `RBig`: always in lowest terms, positive denominator) -/

def mkRat (n : Int) (d : Nat) : Number :=
  let g := Nat.gcd n.natAbs d
  .rat (n / (g : Int)) (d / g)

/-- numerator/denominator view of a non-float number. -/
def ratAdd (a : Int) (b : Nat) (c : Int) (d : Nat) : Number := mkRat (a * d + c * b) (b * d)
def ratMul (a : Int) (b : Nat) (c : Int) (d : Nat) : Number := mkRat (a * c) (b * d)
/-- `a/b ÷ c/d` with `c ≠ 0`. -/
def ratDiv (a : Int) (b : Nat) (c : Int) (d : Nat) : Number :=
  if c < 0 then mkRat (-(a * d)) (b * c.natAbs) else mkRat (a * d) (b * c.natAbs)

/-! ### predicates of `forms.rs` -/

def Number.isZero : Number → Bool
  | .int n => n.isZero
  | .rat n _ => decide (n = 0)
  | .flt f => f.isZero                       -- `f == 0.0 || f == -0.0`
def Number.isNegative : Number → Bool
  | .int n => n.isNeg
  | .rat n _ => decide (n < 0)
  | .flt f => f.sign && !f.isZero            -- `is_sign_negative() && f != -0.0`
def Number.isPositive : Number → Bool
  | .int n => decide (n.val > 0)
  | .rat n _ => decide (n > 0)
  | .flt f => !f.sign

/-! ### `classify_float`, `rnd_f`, `result_f` -/

def classify (f : F64) : Except Err F64 :=
  if f.isNaN then .error .undefined
  else if f.isInf then .error .floatOverflow     -- `inf == f64::MAX` is never true
  else .ok f

def rndF : Number → F64
  | .int n => ofInt n.val                -- `n as f64` / `Integer::to_f64().value()`
  | .flt f => f
  | .rat n d => ofFrac n d               -- `Rational::to_f64().value()`

def resultF (n : Number) : Except Err F64 := classify (rndF n)

def addFc (a b : F64) : Except Err F64 := classify (addF a b)
def mulFc (a b : F64) : Except Err F64 := classify (mulF a b)
/-- `div_f`: zero test on the (converted) divisor, then classify. -/
def divFc (a b : F64) : Except Err F64 :=
  if b.isZero then .error .zeroDivisor else classify (divF a b)

/-! ### add / neg / abs / sub / mul / div -/

def add : Number → Number → R
  | .int a, .int b => .ok (.int (Arith.add a b))
  | .int a, .rat n d => .ok (ratAdd a.val 1 n d)
  | .rat n d, .int a => .ok (ratAdd a.val 1 n d)
  | .int a, .flt f => do let fa ← resultF (.int a); let r ← addFc fa f; pure (.flt r)
  | .flt f, .int a => do let fa ← resultF (.int a); let r ← addFc fa f; pure (.flt r)
  | .rat n d, .flt f => do let fa ← resultF (.rat n d); let r ← addFc fa f; pure (.flt r)
  | .flt f, .rat n d => do let fa ← resultF (.rat n d); let r ← addFc fa f; pure (.flt r)
  | .flt f1, .flt f2 => do let r ← addFc f1 f2; pure (.flt r)
  | .rat a b, .rat c d => .ok (ratAdd a b c d)

def neg : Number → Number
  | .int a => .int (Arith.neg a)
  | .flt f => .flt (negF f)
  | .rat n d => .rat (-n) d

def abs : Number → Number
  | .int a => .int (Arith.abs a)
  | .flt f => .flt (absF f)
  | .rat n d => .rat n.natAbs d

def sub (a b : Number) : R := add a (neg b)

def mul : Number → Number → R
  | .int a, .int b => .ok (.int (Arith.mul a b))
  | .int a, .rat n d => .ok (ratMul a.val 1 n d)
  | .rat n d, .int a => .ok (ratMul a.val 1 n d)
  | .int a, .flt f => do let fa ← resultF (.int a); let r ← mulFc fa f; pure (.flt r)
  | .flt f, .int a => do let fa ← resultF (.int a); let r ← mulFc fa f; pure (.flt r)
  | .rat n d, .flt f => do let fa ← resultF (.rat n d); let r ← mulFc fa f; pure (.flt r)
  | .flt f, .rat n d => do let fa ← resultF (.rat n d); let r ← mulFc fa f; pure (.flt r)
  | .flt f1, .flt f2 => do let r ← mulFc f1 f2; pure (.flt r)
  | .rat a b, .rat c d => .ok (ratMul a b c d)

/-- `div`: `n2.is_zero()` test, then `Div for Number`: both operands through `float_*_to_f`, `div_f`. -/
def div (a b : Number) : R :=
  if b.isZero then .error .zeroDivisor
  else do
    let fa ← resultF a
    let fb ← resultF b
    let r ← divFc fa fb
    pure (.flt r)

/-! ### the float function template and its instances -/

/-- `unary_float_fn_template(n, g)`: classify the argument, apply, classify the result. -/
def template (n : Number) (g : F64 → Except Err F64) : Except Err F64 := do
  let f1 ← resultF n
  let r ← g f1
  classify r

def libm1 (c : Cfg) (op : Fn1) (x : F64) : Except Err F64 :=
  match c.libm.fn1 op x with
  | some r => .ok r
  | none => .error (.miss op.name x.bits 0)

def libmPow (c : Cfg) (x y : F64) : Except Err F64 :=
  match c.libm.pow x y with
  | some r => .ok r
  | none => .error (.miss "pow" x.bits y.bits)

def libmAtan2 (c : Cfg) (x y : F64) : Except Err F64 :=
  match c.libm.atan2 x y with
  | some r => .ok r
  | none => .error (.miss "atan2" x.bits y.bits)

def float (n : Number) : Except Err F64 := resultF n

def fn1 (c : Cfg) (op : Fn1) (n : Number) : R := do
  let r ← template n (libm1 c op); pure (.flt r)

def floatFractionalPart (n : Number) : R := do
  let r ← template n (fun f => .ok (fractF f)); pure (.flt r)

def floatIntegerPart (n : Number) : R := do
  let r ← template n (fun f => .ok (truncF f)); pure (.flt r)

def sqrt (n : Number) : R :=
  if n.isNegative then .error .undefined
  else do let r ← template n (fun f => .ok (sqrtF f)); pure (.flt r)

def atan2 (c : Cfg) (a b : Number) : R :=
  if a.isZero && b.isZero then .error .undefined
  else do
    let f1 ← float a
    let f2 ← float b
    let r ← template (.flt f1) (fun f => libmAtan2 c f f2)
    pure (.flt r)

/-- `float_pow`. -/
def floatPow (c : Cfg) (a b : Number) : R := do
  let f1 ← resultF a
  let f2 ← resultF b
  let p ← libmPow c f1 f2
  let r ← classify p
  pure (.flt r)

/-- `pow` (`**`). -/
def pow (c : Cfg) (a b : Number) : R :=
  if b.isNegative && a.isZero then .error .undefined else floatPow c a b

def liftArith : Arith.R → R
  | .ok n => .ok (.int n)
  | .error .zeroDivisor => .error .zeroDivisor
  | .error .undefined => .error .undefined
  | .error (.typeFloat v) => .error (.typeFloat v)

/-- `int_pow` (`^`). -/
def intPow (c : Cfg) (a b : Number) : R :=
  if a.isZero && b.isNegative then .error .undefined
  else match a, b with
  | .int x, .int y => liftArith (Arith.intPow x y)
  | n1, .int (.big y) => do
      let f1 ← float n1
      let f2 ← float (.int (.big y))
      let r ← template (.flt f1) (fun f => libmPow c f f2)
      pure (.flt r)
  | n1, n2 => do
      let f2 ← float n2
      if n1.isNegative && !isIntegral f2 then .error .undefined
      else
        let f1 ← float n1
        let r ← template (.flt f1) (fun f => libmPow c f f2)
        pure (.flt r)

/-! ### integer roundings -/

/-- `Fixnum::build_with_checked`, else bignum. -/
def ofIntChecked (z : Int) : Num := if Arith.inFix z then .fix z else .big z

/-- the `Float` arm of `rnd_i` after `f.floor()` produced the integral value `z`:
    range test against `Fixnum::MIN as f64 = -2^55` and `Fixnum::MAX as f64`, which is **2^55** (rounded up).
    The pinned code uses the closed range and then builds the fixnum unchecked. -/
def rndIFloat (c : Cfg) (z : Int) : Num :=
  if c.pinnedRndI then
    (if -(2:Int)^55 ≤ z ∧ z ≤ (2:Int)^55 then .fix z else .big z)
  else
    (if -(2:Int)^55 ≤ z ∧ z < (2:Int)^55 then .fix z else .big z)

/-- `rnd_i`. -/
def rndI (c : Cfg) : Number → R
  | .int (.big v) => .ok (.int (ofIntChecked v))
  | .int (.fix v) => .ok (.int (.fix v))
  | .flt f =>
      -- NaN/inf fail both range tests and reach `classify_float(f)?`
      if f.isNaN then .error .undefined
      else if f.isInf then .error .floatOverflow
      else
        -- `build_with_unchecked` carries `debug_assert!(RANGE.contains(&num))`
        match rndIFloat c (floorZ f) with
        | .fix v => if Arith.inFix v then .ok (.int (.fix v)) else .error .panic
        | .big v => .ok (.int (.big v))
  | .rat n d => .ok (.int (ofIntChecked (Int.fdiv n d)))

/-- `floor`: `rnd_i(..).unwrap_or_else(|_| todo!())`. -/
def floor (c : Cfg) (n : Number) : R :=
  match rndI c n with
  | .ok r => .ok r
  | .error _ => .error .panic

def ceiling (c : Cfg) (n : Number) : R := do
  let r ← floor c (neg n); pure (neg r)

def truncate (c : Cfg) (n : Number) : R :=
  if n.isNegative then do let r ← floor c (abs n); pure (neg r)
  else floor c n

/-- `RBig::round` / `f64::round`: half away from zero. -/
def ratRoundZ (n : Int) (d : Nat) : Int :=
  let r : Int := ((2 * n.natAbs + d) / (2 * d) : Nat)
  if n < 0 then -r else r

/-- `f64::round` as a float-to-float operation (exact: the result is integral and representable,
    or the argument is returned unchanged when it is not finite). -/
def roundF (f : F64) : F64 :=
  if f.isFinite then rne f.sign (roundZ f).natAbs 1 else f

def round (c : Cfg) : Number → R
  | .int n => rndI c (.int n)
  | .rat n d => rndI c (.int (.big (ratRoundZ n d)))
  | .flt f => rndI c (.flt (roundF f))

/-! ### sign / max / min / rdiv -/

def sign : Number → Number
  | .flt f => if f.isZero then .flt posZero else .flt (signumF f)
  | n =>
      if n.isPositive then (if n.isZero then .int (.fix 0) else .int (.fix 1))
      else if n.isNegative then .int (.fix (-1)) else .int (.fix 0)

def max : Number → Number → R
  | .int a, .int b => .ok (.int (Arith.max a b))
  | .rat a b, .rat c d => .ok (if a * d ≤ c * b then .rat c d else .rat a b)   -- cmp::max: 2nd when equal
  | n1, n2 => do
      let f1 ← resultF n1
      let f2 ← resultF n2
      match cmpF f1 f2 with
      | .lt => pure n2
      | .eq => pure (.flt f2)
      | .gt => pure n1

def min : Number → Number → R
  | .int a, .int b => .ok (.int (Arith.min a b))
  | .rat a b, .rat c d => .ok (if c * b < a * d then .rat c d else .rat a b)   -- cmp::min: 1st when equal
  | n1, n2 => do
      let f1 ← resultF n1
      let f2 ← resultF n2
      match cmpF f1 f2 with
      | .lt => pure n1
      | .eq => pure (.flt f1)
      | .gt => pure n2

/-- `rational_from_number`: exact. -/
def toRational : Number → Except Err (Int × Nat)
  | .int n => .ok (n.val, 1)
  | .rat n d => .ok (n, d)
  | .flt f =>
      if f.isFinite then
        (match mkRat f.scaledInt P with
         | .rat n d => .ok (n, d)
         | _ => .error .panic)
      else .error .inst

def rdiv (a b : Number) : R := do
  let (n1, d1) ← toRational a
  let (n2, d2) ← toRational b
  if n2 = 0 then .error .zeroDivisor else pure (ratDiv n1 d1 n2 d2)

/-! ### expressions -/

inductive UnOp where
  | neg | plus | abs | sign | float | sqrt | fip | ffp | floor | ceiling | truncate | round
  | fn (f : Fn1)
  deriving Repr, DecidableEq

inductive BinOp where
  | add | sub | mul | div | pow | ipow | atan2 | max | min | rdiv
  deriving Repr, DecidableEq

inductive Expr where
  | int (v : Int)
  | flt (bits : Nat)
  | un (op : UnOp) (e : Expr)
  | bin (op : BinOp) (l r : Expr)
  deriving Repr

def applyUn (c : Cfg) : UnOp → Number → R
  | .neg, a => .ok (neg a)
  | .plus, a => .ok a
  | .abs, a => .ok (abs a)
  | .sign, a => .ok (sign a)
  | .float, a => do let r ← float a; pure (.flt r)
  | .sqrt, a => sqrt a
  | .fip, a => floatIntegerPart a
  | .ffp, a => floatFractionalPart a
  | .floor, a => floor c a
  | .ceiling, a => ceiling c a
  | .truncate, a => truncate c a
  | .round, a => round c a
  | .fn f, a => fn1 c f a

def applyBin (c : Cfg) : BinOp → Number → Number → R
  | .add, a, b => add a b
  | .sub, a, b => sub a b
  | .mul, a, b => mul a b
  | .div, a, b => div a b
  | .pow, a, b => pow c a b
  | .ipow, a, b => intPow c a b
  | .atan2, a, b => atan2 c a b
  | .max, a, b => max a b
  | .min, a, b => min a b
  | .rdiv, a, b => rdiv a b

/-- evaluation order of the implementation: operands left to right, first error wins. -/
def eval (c : Cfg) : Expr → R
  | .int v => .ok (.int (Arith.lit v))
  | .flt b => .ok (.flt ⟨b⟩)
  | .un op e =>
      match eval c e with
      | .error x => .error x
      | .ok a => applyUn c op a
  | .bin op l r =>
      match eval c l with
      | .error x => .error x
      | .ok a =>
        match eval c r with
        | .error x => .error x
        | .ok b => applyBin c op a b

end Scryer.ArithMixed
