import ScryerModel.Model.Term
/-
C14 — sort/2 and keysort/2 (src/machine/dispatch.rs `MachineState::sort`, `keysort`;
src/machine/machine_errors.rs `check_sort_errors`, `check_keysort_errors`,
`check_for_list_pairs`; src/machine/machine_state_impl.rs `try_from_list`, `key_val_pair`).

The code: `sort` = `Vec::sort_unstable_by(compare_term_test)` then `Vec::dedup_by(== Equal)`;
`keysort` = `Vec::sort_by` (stable) on the keys. Rust's `sort_unstable_by` (ipnsort) and `sort_by`
(driftsort) are large library algorithms and are NOT mirrored. The model is the specification
over an arbitrary comparison `cmp : α → α → Ordering`:

* `isort` — stable insertion sort, the defining function;
* `msort` — a stable bottom-up merge sort (proved equal to `isort` in Proofs/Sort.lean through
  the uniqueness theorem for stable sorting: any correct stable sort computes this list);
* `dedupAdj` — `Vec::dedup_by`: of each run of `==` elements the first one stays;
* `sortDedup = dedupAdj ∘ msort` is sort/2, `msort` on the key comparison is keysort/2.

The error layer IS mirrored (order of the checks as in the Rust code), on `Scryer.Term`.
Import-free (only the shared Term model).
-/
namespace Scryer.Sort
open Scryer

variable {α : Type}

/-! ### the specification functions -/

/-- insert `x` (which stood BEFORE all of the list in the input) in front of the first element
    that is not smaller: keeps equal elements in input order. -/
def insertBy (cmp : α → α → Ordering) (x : α) : List α → List α
  | [] => [x]
  | y :: ys => if cmp x y == .gt then y :: insertBy cmp x ys else x :: y :: ys

/-- stable insertion sort. -/
def isort (cmp : α → α → Ordering) : List α → List α
  | [] => []
  | x :: xs => insertBy cmp x (isort cmp xs)

/-- drop the elements equal to `prev` that follow it. -/
def dedupFrom (cmp : α → α → Ordering) (prev : α) : List α → List α
  | [] => []
  | y :: r => if cmp prev y == .eq then dedupFrom cmp prev r else y :: dedupFrom cmp y r

/-- `Vec::dedup_by(|a, b| cmp(a, b) == Equal)`: the first element of every run stays. -/
def dedupAdj (cmp : α → α → Ordering) : List α → List α
  | [] => []
  | x :: r => x :: dedupFrom cmp x r

/-- stable merge: on a tie the element of the LEFT list goes first. -/
def merge (cmp : α → α → Ordering) : List α → List α → List α
  | [], ys => ys
  | xs, [] => xs
  | x :: xs, y :: ys =>
      if cmp x y == .gt then y :: merge cmp (x :: xs) ys else x :: merge cmp xs (y :: ys)
termination_by xs ys => xs.length + ys.length

/-- one bottom-up pass: merge neighbouring runs. -/
def mergePairs (cmp : α → α → Ordering) : List (List α) → List (List α)
  | a :: b :: r => merge cmp a b :: mergePairs cmp r
  | l => l

/-- repeat passes until one run is left (`fuel` ≥ number of runs is enough). -/
def mergeAll (cmp : α → α → Ordering) : Nat → List (List α) → List α
  | _, [] => []
  | _, [a] => a
  | 0, a :: _ => a
  | n + 1, l => mergeAll cmp n (mergePairs cmp l)

/-- stable bottom-up merge sort. -/
def msort (cmp : α → α → Ordering) (xs : List α) : List α :=
  mergeAll cmp xs.length (xs.map fun x => [x])

/-- sort/2 on the element list. -/
def sortDedup (cmp : α → α → Ordering) (xs : List α) : List α := dedupAdj cmp (msort cmp xs)

/-- keysort/2 on the list of (key, whole element) pairs. -/
def keysortBy {κ : Type} (cmp : κ → κ → Ordering) (xs : List (κ × α)) : List (κ × α) :=
  msort (fun a b => cmp a.1 b.1) xs

/-! ### the builtins on terms, with their errors -/

/-- maximal list prefix and the tail of a term (`[a,b|T]` ↦ `([a,b], T)`). -/
def viewList : Nat → Term → List Term × Term
  | 0, t => ([], t)
  | fuel + 1, .str "." [h, t] =>
      let r := viewList fuel t
      (h :: r.1, r.2)
  | _, t => ([], t)

/-- a generous fuel: the number of constructors of the term. -/
def termSize : Term → Nat
  | .str _ args => 1 + sizeArgs args
  | _ => 1
where sizeArgs : List Term → Nat
  | [] => 0
  | a :: as => termSize a + sizeArgs as

def view (t : Term) : List Term × Term := viewList (termSize t) t

inductive Outcome where
  /-- no error: the second argument is unified with this term. -/
  | unifyWith (result : Term)
  | instErr
  | typeErr (type : String) (culprit : Term)
  deriving Repr, BEq

/-- `check_sort_errors` then sort + dedup. `l` is the first argument, `s` the second. -/
def sortCall (cmp : Term → Term → Ordering) (l s : Term) : Outcome :=
  match view l with
  | (_, .var _) => .instErr
  | (xs, .atom "[]") =>
      match view s with
      | (_, .var _) | (_, .atom "[]") => .unifyWith (Term.ofList (sortDedup cmp xs))
      | _ => .typeErr "list" s
  | _ => .typeErr "list" l

/-- `key_val_pair`: the key of a `K-V` element. -/
def pairKey? : Term → Option Term
  | .str "-" [k, _] => some k
  | _ => none

/-- first error among the elements of the Pairs list (`key_val_pair` in list order):
    a variable element is an instantiation error, a non-pair a `type_error(pair, E)`. -/
def pairsError? : List Term → Option Outcome
  | [] => none
  | .var _ :: _ => some .instErr
  | e :: r => match pairKey? e with
      | some _ => pairsError? r
      | none => some (.typeErr "pair" e)

/-- `check_for_list_pairs` on the elements of the second argument: the first element that is
    neither a variable nor a pair. (ISO names the element as culprit.) -/
def sortedError? : List Term → Option Outcome
  | [] => none
  | .var _ :: r => sortedError? r
  | e :: r => match pairKey? e with
      | some _ => sortedError? r
      | none => some (.typeErr "pair" e)

def keyed (xs : List Term) : List (Term × Term) :=
  xs.map fun e => ((pairKey? e).getD e, e)

/-- `check_keysort_errors` (Pairs shape; Sorted shape and elements), `key_val_pair` on every
    element of Pairs, stable sort on the keys. -/
def keysortCall (cmp : Term → Term → Ordering) (l s : Term) : Outcome :=
  match view l with
  | (_, .var _) => .instErr
  | (xs, .atom "[]") =>
      match view s with
      | (ss, .var _) | (ss, .atom "[]") =>
          match sortedError? ss with
          | some e => e
          | none =>
            match pairsError? xs with
            | some e => e
            | none => .unifyWith (Term.ofList ((keysortBy cmp (keyed xs)).map (·.2)))
      | _ => .typeErr "list" s
  | _ => .typeErr "list" l

end Scryer.Sort
