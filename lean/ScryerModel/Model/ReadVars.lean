/-!
# Model of the variable bookkeeping of `read_term/2,3` (property C45)

Mirrors, for the variable-relevant part only,
* `src/parser/parser.rs` (`Token::Var(v)`: `_` becomes `Term::AnonVar`, every other variable token
  a named `Term::Var`),
* `src/read.rs::TermWriter::write_term_to_heap` (the term is written to the heap breadth-first; the
  `var_dict : IndexMap<VarKey, cell>` gets an entry for a named variable the first time its name
  is met and an entry `VarKey::AnonVar(key) ↦ site` for every anonymous variable, through
  `IndexMap::insert`, i.e. insert-or-REPLACE),
* `src/machine/machine_state.rs::read_term_body` (pre-order walk of the heap term that builds
  `singleton_var_set : IndexMap<var, bool>` — first visit `true`, any later visit `false`; the
  singleton list is the dictionary filtered by "named and flag true", in dictionary order; the
  variable list is the dictionary, each entry with its index in `singleton_var_set`) and
  `write_read_term_options` (stable sort of the variable list by that index; `variables` = the
  cells, `variable_names` = the named entries).

Abstractions: a clause is its token sequence reduced to `other | layout | var name`; the heap is
abstracted to the *identity* of variables (`V`): all occurrences of one name share a cell
(`V.named n`), an anonymous variable is the fresh cell at its own argument site (`V.site i`, `i` the
occurrence position). The breadth-first order in which the heap writer meets the occurrences is an
arbitrary list `order` of occurrence positions (the theorems quantify over every permutation). The
key given to an anonymous variable is a parameter `akey` of the occurrence position: the repaired
code uses the argument site (injective); the pinned code used the heap length, which is the same for
neighbouring anonymous variables (finding C45-1).
-/
namespace Scryer.ReadVars

/-- A token of the clause text, as far as variables are concerned. -/
inductive Tok where
  | other
  | layout
  | var (name : String)
  deriving DecidableEq, Repr

/-- A variable occurrence in the parsed term. -/
inductive Occ where
  | named (n : String)
  | anon
  deriving DecidableEq, Repr

/-- `parser.rs`: `Token::Var(v) => if v.trim() == "_" { AnonVar } else { Var(v) }` (a variable token
    never contains layout, so `trim` is the identity on it). -/
def classify (name : String) : Occ := if name = "_" then .anon else .named name

/-- Variable occurrences of a clause, left to right (layout and all other tokens are dropped). -/
def occsOf : List Tok → List Occ
  | [] => []
  | .var n :: r => classify n :: occsOf r
  | _ :: r => occsOf r

/-- Identity of a variable of the term read. -/
inductive V where
  | named (n : String)
  | site (i : Nat)
  deriving DecidableEq, Repr

/-- `VarKey` of `machine_indices.rs`. -/
inductive VarKey where
  | name (n : String)
  | anonK (k : Nat)
  deriving DecidableEq, Repr

def toV (i : Nat) : Occ → V
  | .named n => .named n
  | .anon => .site i

/-- The variable at every occurrence position (pre-order = left-to-right leaf sequence of the term). -/
def varsOf (occs : List Occ) : List V := occs.mapIdx toV

/-! ## Specification -/

/-- keep the first occurrence of every element. -/
def dedupFirst : List V → List V
  | [] => []
  | v :: vs => v :: (dedupFirst vs).filter (· != v)

def nameEntry : V → Option (String × V)
  | .named n => some (n, .named n)
  | .site _ => none

/-- `variables(Vs)`: the distinct variables in first-occurrence order. -/
def specVariables (occs : List Occ) : List V := dedupFirst (varsOf occs)

/-- `variable_names(VNs)`: `Name=Var` for the named ones, same order. -/
def specVariableNames (occs : List Occ) : List (String × V) := (specVariables occs).filterMap nameEntry

/-- `singletons(Ss)`: the named ones that occur exactly once. -/
def specSingletons (occs : List Occ) : List (String × V) :=
  (specVariableNames occs).filter fun e => (varsOf occs).count e.2 == 1

/-! ## Mechanism -/

abbrev Dict := List (VarKey × V)

def hasKey (d : Dict) (k : VarKey) : Bool := d.any (·.1 == k)

/-- named variable: `if let Some(addr) = var_dict.get(&key) { bind site } else { insert }`. -/
def insertNew (d : Dict) (k : VarKey) (v : V) : Dict := if hasKey d k then d else d ++ [(k, v)]

/-- `IndexMap::insert`: a present key keeps its position and gets the new value. -/
def imInsert (d : Dict) (k : VarKey) (v : V) : Dict :=
  if hasKey d k then d.map (fun e => if e.1 == k then (e.1, v) else e) else d ++ [(k, v)]

def dictStep (akey : Nat → Nat) (occs : List Occ) (d : Dict) (i : Nat) : Dict :=
  match occs[i]? with
  | some (.named n) => insertNew d (.name n) (.named n)
  | some .anon => imInsert d (.anonK (akey i)) (.site i)
  | none => d

/-- the dictionary after the heap writer met the occurrences in the order `order`. -/
def buildDict (akey : Nat → Nat) (occs : List Occ) (order : List Nat) : Dict :=
  order.foldl (dictStep akey occs) []

abbrev Seen := List (V × Bool)

def seenInsert (m : Seen) (v : V) : Seen :=
  if m.any (·.1 == v) then m.map (fun e => if e.1 == v then (e.1, false) else e) else m ++ [(v, true)]

/-- `singleton_var_set` after the pre-order walk. -/
def seenOf (vs : List V) : Seen := vs.foldl seenInsert []

/-- `get_index_of`. -/
def idxIn (m : Seen) (v : V) : Option Nat :=
  if v ∈ m.map (·.1) then some ((m.map (·.1)).idxOf v) else none

/-- `*singleton_var_set.get(&r).unwrap_or(&false)`. -/
def flagIn (m : Seen) (v : V) : Bool :=
  match m.find? (·.1 == v) with
  | some e => e.2
  | none => false

/-- stable insertion sort by the index (`sort_by_key`). -/
def insertByIdx (x : VarKey × V × Nat) : List (VarKey × V × Nat) → List (VarKey × V × Nat)
  | [] => [x]
  | y :: r => if x.2.2 < y.2.2 then x :: y :: r else y :: insertByIdx x r

def sortByIdx : List (VarKey × V × Nat) → List (VarKey × V × Nat)
  | [] => []
  | x :: r => insertByIdx x (sortByIdx r)

def keyName : VarKey × V × Nat → Option (String × V)
  | (.name n, v, _) => some (n, v)
  | (.anonK _, _, _) => none

structure Out where
  variables : List V
  variableNames : List (String × V)
  singletons : List (String × V)
  deriving DecidableEq, Repr

def mechanism (akey : Nat → Nat) (occs : List Occ) (order : List Nat) : Out :=
  let dict := buildDict akey occs order
  let seen := seenOf (varsOf occs)
  let singles := dict.filterMap fun e =>
    match e.1 with
    | .name n => if flagIn seen e.2 then some (n, e.2) else none
    | .anonK _ => none
  let varList := dict.filterMap fun e => (idxIn seen e.2).map fun idx => (e.1, e.2, idx)
  let sorted := sortByIdx varList
  { variables := sorted.map (·.2.1), variableNames := sorted.filterMap keyName, singletons := singles }

/-- the specification as one record. -/
def spec (occs : List Occ) : Out :=
  { variables := specVariables occs, variableNames := specVariableNames occs,
    singletons := specSingletons occs }

/-- rank of a variable = its number in first-occurrence order (how the harness names the variables
    of the answer). -/
def rank (occs : List Occ) (v : V) : Nat := (specVariables occs).idxOf v

end Scryer.ReadVars
