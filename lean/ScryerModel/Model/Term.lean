/-
First-order Prolog terms shared by the term-level models (C10, C13, C14, C23, …).

* lists are `'.'(H,T)` compounds ending in the atom `[]`; a string is the list of its
  one-character atoms (this is what the property C20 says the system must make true);
* floats are carried as their IEEE-754 bit pattern;
* rationals are a numerator and a positive denominator in lowest terms.
Import-free.
-/
namespace Scryer

inductive Term where
  | var (name : String)
  | int (v : Int)
  | rat (num : Int) (den : Nat)
  | flt (bits : Nat)
  | atom (name : String)
  | str (f : String) (args : List Term)
  deriving Repr, Inhabited, BEq

namespace Term

def nil : Term := .atom "[]"
def cons (h t : Term) : Term := .str "." [h, t]

def ofList (xs : List Term) (tail : Term := nil) : Term := xs.foldr cons tail
def ofChars (cs : List Char) (tail : Term := nil) : Term :=
  ofList (cs.map fun c => .atom (String.singleton c)) tail

/-- splits a term into the maximal list prefix and its tail. -/
def unconsAll : Nat → Term → List Term × Term
  | 0, t => ([], t)
  | fuel+1, .str "." [h, t] =>
      let (xs, tl) := unconsAll fuel t
      (h :: xs, tl)
  | _, t => ([], t)

end Term
end Scryer
