/-!
# Model of the logical update view of dynamic predicates (property C09)

Mirrors, for ONE dynamic predicate,

* the generation stamps of its clauses: `DynamicElse(birth, death, next)` /
  `DynamicInternalElse(birth, death, next)` (`src/instructions.rs`, `src/codegen.rs`), the global
  clock that ticks on every assert / retract (`src/machine/loader.rs` `$assertz`/`$asserta`,
  `retract_clause`; `src/machine/compile.rs` `retract_dynamic_clause`),
* the visibility test `birth < cc && cc <= death` and the scan `find_living_dynamic_else` /
  `find_living_dynamic` (`src/machine/dispatch.rs`),
* the dispatch protocol of the `DynamicElse` / `DynamicInternalElse` / `DynamicIndexedChoice` arms
  (`src/machine/dispatch.rs`): first entry captures `cc := global_clock`, creates a choice point
  (holding `cc` in an extra cell) only when a further living clause exists; a retry restores `cc`
  from the choice point, re-scans from the stored alternative, and either keeps (`retry_me_else` /
  `retry`) or pops (`trust_me` / `trust`) the choice point,
* `retract/1` of `src/lib/builtins.pl` (`call_retract`: `findall/3` over the live clause store,
  then `retract_clauses` walking that list on backtracking), `retractall/1`.

`Variant` selects the pinned or the repaired behaviour of two defects found with this model
(notes/findings/C09-1, C09-2):
* `cc = false`: on a retry the scan for the living clause is done with the STALE `cc` register
  (whatever the last dynamic call left there) and `cc` is restored only afterwards;
* `idx = false`: the choice point of a `DynamicIndexedChoice` walk holds an absolute index into the
  line although `asserta` pushes new clauses onto the FRONT of the line.

Abstractions: code addresses are clause identifiers (`id`), a chain of `DynamicElse` instructions
linked by relative offsets is a list; the `DynamicIndexedChoice` line of a key is the list of chain
entries with that key (C06 proves the index tracks the chain); `abolish/1` is modelled as the atomic
retraction of every live clause (the code detaches the old code, whose stamps then never change:
old choice points see the same clauses either way, new calls see none).
-/
namespace Scryer.Luv

/-- one clause of the dynamic predicate as laid out in the code area -/
structure Entry (α : Type) where
  /-- code address of its `DynamicElse` instruction: unique and permanent -/
  id : Nat
  birth : Nat
  /-- `none` is `Death::Infinity` -/
  death : Option Nat
  cl : α
deriving Repr, DecidableEq

/-- `birth < cc && Death::Finite(cc) <= death` -/
def Entry.vis {α} (cc : Nat) (e : Entry α) : Bool :=
  decide (e.birth < cc) && (match e.death with | none => true | some d => decide (cc ≤ d))

/-- a retraction stamps the clause: `*d = Death::Finite(global_clock)` -/
def Entry.kill {α} (clock : Nat) (e : Entry α) : Entry α := { e with death := some clock }

def Entry.live {α} (e : Entry α) : Bool := e.death.isNone

structure DB (α : Type) where
  chain : List (Entry α)
  /-- `machine_st.global_clock` -/
  clock : Nat
  /-- next free code address -/
  next : Nat
deriving Repr

def DB.empty {α} : DB α := ⟨[], 1, 0⟩

inductive Upd (α : Type) where
  | assertz (c : α)
  | asserta (c : α)
  /-- `'$retract_clause'` on the clause at this address (no effect when it is already dead) -/
  | retractId (id : Nat)
  | abolish
  /-- an assert / retract on ANOTHER predicate: only the shared clock moves -/
  | tick
deriving Repr

def targets {α} (id : Nat) (e : Entry α) : Bool := e.id == id && e.live

def DB.apply {α} (db : DB α) : Upd α → DB α
  | .assertz c => ⟨db.chain ++ [⟨db.next, db.clock, none, c⟩], db.clock + 1, db.next + 1⟩
  | .asserta c => ⟨⟨db.next, db.clock, none, c⟩ :: db.chain, db.clock + 1, db.next + 1⟩
  | .retractId id =>
    if db.chain.any (targets id) then
      ⟨db.chain.map (fun e => if targets id e then e.kill db.clock else e), db.clock + 1, db.next⟩
    else db
  | .abolish =>
    ⟨db.chain.map (fun e => if e.live then e.kill db.clock else e), db.clock + 1, db.next⟩
  | .tick => { db with clock := db.clock + 1 }

def DB.applyAll {α} (db : DB α) (us : List (Upd α)) : DB α := us.foldl DB.apply db

/-! ## the specification: what a call that captured `cc` must deliver -/

/-- the clauses (address, payload) of a chain visible to generation `cc`, in chain order -/
def view {α} (cc : Nat) (l : List (Entry α)) : List (Nat × α) :=
  (l.filter (Entry.vis cc)).map (fun e => (e.id, e.cl))

/-- what a call starting NOW sees -/
def DB.snapshot {α} (db : DB α) : List (Nat × α) := view db.clock db.chain

/-- the clause store as `clause/2` and `retract/1` see it (the `$clause` skeleton lists exactly the
    clauses not yet retracted) -/
def DB.liveList {α} (db : DB α) : List (Nat × α) :=
  (db.chain.filter Entry.live).map (fun e => (e.id, e.cl))

/-- stamp-free reference database: a plain list of clauses (with the address counter) -/
structure Spec (α : Type) where
  cls : List (Nat × α)
  next : Nat

def Spec.apply {α} (s : Spec α) : Upd α → Spec α
  | .assertz c => ⟨s.cls ++ [(s.next, c)], s.next + 1⟩
  | .asserta c => ⟨(s.next, c) :: s.cls, s.next + 1⟩
  | .retractId id => ⟨s.cls.filter (fun p => p.1 != id), s.next⟩
  | .abolish => ⟨[], s.next⟩
  | .tick => s

def Spec.applyAll {α} (s : Spec α) (us : List (Upd α)) : Spec α := us.foldl Spec.apply s

def DB.spec {α} (db : DB α) : Spec α := ⟨db.snapshot, db.next⟩

/-! ## scanning -/

/-- `find_living_dynamic_else`: first clause visible to `cc` from here on, and the chain behind it -/
def findLiving {α} (cc : Nat) : List (Entry α) → Option (Entry α × List (Entry α))
  | [] => none
  | e :: es => if e.vis cc then some (e, es) else findLiving cc es

/-- the chain from the instruction at address `id` on (where a choice point's `bp` points) -/
def suffixFrom {α} (id : Nat) (l : List (Entry α)) : List (Entry α) :=
  l.dropWhile (fun e => e.id != id)

/-- which defects are repaired -/
structure Variant where
  cc : Bool
  idx : Bool
deriving Repr, DecidableEq

def Variant.fixed : Variant := ⟨true, true⟩
def Variant.pinned : Variant := ⟨false, false⟩

/-- result of executing the dispatch instruction once -/
structure Step (α : Type) (φ : Type) where
  /-- the clause whose body is entered (`none`: the call fails) -/
  out : Option (Entry α)
  /-- the call's choice point after the step -/
  frame : Option φ
  /-- the `cc` register after the step -/
  cc : Nat
  /-- `fail` was raised while the choice point was still on the stack: `backtrack()` re-enters the
      same instruction in the same state, forever -/
  stuck : Bool

/-! ## walking the chain of `DynamicElse` / `DynamicInternalElse` instructions -/

/-- choice point of a chain walk: the extra cell holding `cc`, and `bp` -/
structure Frame where
  cc : Nat
  bp : Nat
deriving Repr, DecidableEq

/-- `FirstOrNext::First`: `cc := global_clock`; scan; a choice point only if a further clause is
    living -/
def chainFirst {α} (clock : Nat) (l : List (Entry α)) : Step α Frame :=
  match findLiving clock l with
  | none => ⟨none, none, clock, false⟩
  | some (e, rest) =>
    match rest with
    | [] => ⟨some e, none, clock, false⟩                       -- next_i == 0
    | nx :: _ =>
      match findLiving clock rest with
      | some _ => ⟨some e, some ⟨clock, nx.id⟩, clock, false⟩  -- try_me_else(next_i)
      | none => ⟨some e, none, clock, false⟩                   -- p += 1

/-- `FirstOrNext::Next`: `l` is the chain from `bp` on, `reg` the `cc` register on entry -/
def chainNext {α} (v : Variant) (reg : Nat) (f : Frame) (l : List (Entry α)) : Step α Frame :=
  let c := if v.cc then f.cc else reg
  match findLiving c l with
  | none => ⟨none, some f, c, true⟩
  | some (e, rest) =>
    -- here the code restores cc from the choice point
    match rest with
    | [] => ⟨some e, none, f.cc, false⟩                        -- trust_me
    | nx :: _ =>
      match findLiving f.cc rest with
      | some _ => ⟨some e, some ⟨f.cc, nx.id⟩, f.cc, false⟩    -- retry_me_else(next_i)
      | none => ⟨some e, none, f.cc, false⟩                    -- trust_me

/-- what happens before a choice point is retried: updates of the database, and other calls
    leaving an arbitrary value in the `cc` register -/
structure Interlude (α : Type) where
  upds : List (Upd α)
  reg : Nat

/-- the clauses delivered by successive retries (one per interlude) and whether the machine got
    stuck -/
def runChain {α} (v : Variant) : DB α → Option Frame → List (Interlude α) → List (Entry α) × Bool
  | _, none, _ => ([], false)
  | _, some _, [] => ([], false)
  | db, some f, il :: ils =>
    let db' := db.applyAll il.upds
    let s := chainNext v il.reg f (suffixFrom f.bp db'.chain)
    if s.stuck then ([], true) else
    match s.out with
    | none => ([], false)
    | some e =>
      let r := runChain v db' s.frame ils
      (e :: r.1, r.2)

/-- a call of the predicate through the chain, backtracked into once per interlude -/
def callChain {α} (v : Variant) (db : DB α) (ils : List (Interlude α)) : List (Entry α) × Bool :=
  let s := chainFirst db.clock db.chain
  match s.out with
  | none => ([], false)
  | some e =>
    let r := runChain v db s.frame ils
    (e :: r.1, r.2)

/-! ## walking a `DynamicIndexedChoice` line -/

/-- choice point of a line walk: `cc` and `biip` -/
structure BFrame where
  cc : Nat
  biip : Nat
deriving Repr, DecidableEq

/-- number of leading entries born at or after `cc`: exactly the clauses that `asserta` pushed
    onto the front of the line after the snapshot `cc` was taken (repair of C09-2) -/
def lead {α} (cc : Nat) : List (Entry α) → Nat
  | [] => 0
  | e :: es => if cc ≤ e.birth then lead cc es + 1 else 0

def findLivingIdx {α} (cc : Nat) : List (Entry α) → Nat → Option (Entry α × Nat)
  | [], _ => none
  | e :: es, ii => if e.vis cc then some (e, ii) else findLivingIdx cc es (ii + 1)

/-- `find_living_dynamic(oi, ii)`: first living entry of the line at index ≥ `ii` -/
def findLivingAt {α} (cc : Nat) (line : List (Entry α)) (ii : Nat) : Option (Entry α × Nat) :=
  findLivingIdx cc (line.drop ii) ii

def lineFirst {α} (v : Variant) (clock : Nat) (line : List (Entry α)) : Step α BFrame :=
  let k := if v.idx then lead clock line else 0
  match findLivingAt clock line k with
  | none => ⟨none, none, clock, false⟩
  | some (e, ii) =>
    match findLivingAt clock line (ii + 1) with
    | some _ => ⟨some e, some ⟨clock, ii + 1 - k⟩, clock, false⟩   -- indexed_try
    | none => ⟨some e, none, clock, false⟩

def lineNext {α} (v : Variant) (reg : Nat) (f : BFrame) (line : List (Entry α)) : Step α BFrame :=
  let c := if v.cc then f.cc else reg
  let k := if v.idx then lead f.cc line else 0
  match findLivingAt c line (f.biip + k) with
  | none => ⟨none, some f, c, true⟩
  | some (e, ii) =>
    match findLivingAt f.cc line (ii + 1) with
    | some _ => ⟨some e, some ⟨f.cc, ii + 1 - k⟩, f.cc, false⟩     -- retry
    | none => ⟨some e, none, f.cc, false⟩                          -- trust

def runLine {α} (v : Variant) (sel : α → Bool) :
    DB α → Option BFrame → List (Interlude α) → List (Entry α) × Bool
  | _, none, _ => ([], false)
  | _, some _, [] => ([], false)
  | db, some f, il :: ils =>
    let db' := db.applyAll il.upds
    let s := lineNext v il.reg f (db'.chain.filter (fun e => sel e.cl))
    if s.stuck then ([], true) else
    match s.out with
    | none => ([], false)
    | some e =>
      let r := runLine v sel db' s.frame ils
      (e :: r.1, r.2)

/-- a call through the index: `sel` picks the clauses filed under the call's key -/
def callLine {α} (v : Variant) (sel : α → Bool) (db : DB α) (ils : List (Interlude α)) :
    List (Entry α) × Bool :=
  let s := lineFirst v db.clock (db.chain.filter (fun e => sel e.cl))
  match s.out with
  | none => ([], false)
  | some e =>
    let r := runLine v sel db s.frame ils
    (e :: r.1, r.2)

/-! ## retract/1, retractall/1 (builtins.pl) -/

/-- `call_retract`: `findall/3` collects the matching clauses of the store … -/
def DB.retractList {α} (m : α → Bool) (db : DB α) : List (Nat × α) :=
  db.liveList.filter (fun p => m p.2)

/-- … `retract_clauses` then walks this list: one more solution per backtrack; the clause is
    removed if it is still there, and unified with in any case. Returns the solutions and the final
    database. -/
def retractRun {α} : DB α → List (Nat × α) → List (Interlude α) → List (Nat × α) × DB α
  | db, [], _ => ([], db)
  | db, p :: ps, ils =>
    let db1 := db.apply (.retractId p.1)
    match ps, ils with
    | [], _ => ([p], db1)
    | _, [] => ([p], db1)
    | _ :: _, il :: ils' =>
      let r := retractRun (db1.applyAll il.upds) ps ils'
      (p :: r.1, r.2)

/-- `retract(C)` backtracked into once per interlude -/
def DB.retract {α} (m : α → Bool) (db : DB α) (ils : List (Interlude α)) :
    List (Nat × α) × DB α :=
  retractRun db (db.retractList m) ils

/-- `once(retract(C))` -/
def DB.retractFirst {α} (m : α → Bool) (db : DB α) : Option (Nat × α) × DB α :=
  match db.retractList m with
  | [] => (none, db)
  | p :: _ => (some p, db.apply (.retractId p.1))

/-- `retractall(H)`: `retract_clause(H, _), false` -/
def DB.retractall {α} (m : α → Bool) (db : DB α) : DB α :=
  (db.retractList m).foldl (fun d p => d.apply (.retractId p.1)) db

end Scryer.Luv
