import ScryerModel.Model.Term
import ScryerModel.Model.Solve
/-!
# Model of `call_with_inference_limit/3`  (property C40)

Two layers.

**Layer 1 – instrumented semantics.**  The execution of a goal is described by its *event trace*:
`tick` (one counted inference: `increment_call_count` ran and added one to `local_count`),
`probe` (an inference that an inner limit refused: it was NOT added to `local_count`, but an
enclosing limit that is at its own bound at that very moment fires instead of the inner one, see
`CWIL::add_limit`: an inner limit that is not strictly tighter is not pushed) and `ans s` (a
solution, state `s`).  The trace ends with `Fin`: `done` (search space exhausted), `cut` (internal:
the enclosing clause was cut), `exc` (uncaught ball) or `oof` (fuel or tick budget of the model run
exhausted: the rest of the trace is unknown).

`limit bind s0 L T` is the meaning of `call_with_inference_limit(G, L, R)` given the trace `T` of
`call(G)`: it mirrors the two clauses of `call_with_inference_limit/5` in src/lib/iso_ext.pl
(REPAIRED behaviour, see notes/findings/C40-1.md, C40-2.md):
  * a solution of `G` is passed on with `R = !` if no choice point of `G` is left
    (`'$inference_level'`: nothing at all follows in the trace) and `R = true` otherwise;
  * the `L+1`-st inference of `G` (all solutions share one budget: the counter is re-installed with
    the remaining budget when `G` is re-entered) is refused: the bindings of `G` are undone and
    `R = inference_limit_exceeded` is the last solution;
  * a ball passes through (the counter is removed by the second clause and the ball re-thrown).

`run` is the instrumented interpreter (same state, unification, renaming as `Scryer.Solve`) for the
fragment whose inference cost was calibrated on the implementation (notes/design/C40.md):
every predicate call = 1 tick at the call (`CallNamed/ExecuteNamed/CallN`), every backtrack into a
clause alternative or a `;`/else alternative = 1 tick (`RetryMeElse/TrustMe/Retry/Trust`),
`true`, `fail`, `=`/2, `throw/1`, `catch/3`, `call_with_inference_limit/3` are predicates (1 tick),
`!`, `,`, `->`, `\+` cost nothing themselves, `call(G)` costs nothing beyond the call of `G`, and
`catch/3` calls its goal and its recovery with the non-counting call policy (first tick free).

**Layer 2 – the counter mechanism.**  `CWIL` mirrors `struct CWIL` of
src/machine/machine_state.rs literally (`addLimit`, `removeLimit`, `increment`, `reset`); `Spec` is
a stack of remaining budgets.  Proofs/Cwil.lean proves them observationally equal on every LIFO
operation sequence.
-/
namespace Scryer.Cwil
open Scryer Scryer.Solve

/-! ## Layer 1: traces -/

inductive Ev where
  | tick
  | probe
  | ans (s : St)
  deriving Repr, Inhabited

inductive Fin where
  | done
  | cut
  | exc (ball : Term) (ctr : Nat)
  | oof
  deriving Repr, Inhabited

structure Res where
  evs : List Ev
  fin : Fin
  deriving Repr, Inhabited

def Res.cons (e : Ev) (r : Res) : Res := ⟨e :: r.evs, r.fin⟩
def Res.app (es : List Ev) (r : Res) : Res := ⟨es ++ r.evs, r.fin⟩
def Res.oofR : Res := ⟨[], .oof⟩
def Res.none : Res := ⟨[], .done⟩
def Res.one (s : St) : Res := ⟨[.ans s], .done⟩

/-- number of counted inferences in a trace. -/
def ticks : List Ev → Nat
  | [] => 0
  | .tick :: es => ticks es + 1
  | _ :: es => ticks es

/-- the solutions of a trace, in order. -/
def answers : List Ev → List St
  | [] => []
  | .ans s :: es => s :: answers es
  | _ :: es => answers es

/-- `'$inference_level'(R, B)`: `!` iff no choice point younger than the call is left, i.e. the
search of `G` is over right after this solution. -/
def rAtom (rest : List Ev) (fin : Fin) : String :=
  match rest, fin with
  | [], .done => "!"
  | _, _ => "true"

/-- pass a solution on with `R` bound to `a`; if `R` does not unify the solution is skipped
(the failed `'$inference_level'` backtracks into `G`). -/
def emitAns (bind : String → St → Option St) (a : String) (s : St) (r : Res) : Res :=
  match bind a s with
  | some s' => r.cons (.ans s')
  | .none => r

/-- second clause of `call_with_inference_limit/5` when `'$inference_limit_exceeded'` holds:
bindings undone (state `s0` of the call), `R = inference_limit_exceeded`, nothing left to retry.
The refused inference is visible to the enclosing limits as a `probe`. -/
def exceededRes (bind : String → St → Option St) (s0 : St) : Res :=
  match bind "inference_limit_exceeded" s0 with
  | some s' => ⟨[.probe, .ans s'], .done⟩
  | .none => ⟨[.probe], .done⟩

/-- a cut never leaves `call/1`. -/
def finTop : Fin → Fin
  | .cut => .done
  | f => f

/-- a solution `s` of the goal followed by the events `es` and the end `fin`; `rest` is the limited
rest. If the model run ends right after the solution (`oof`) it is unknown whether a choice point
is left: the solution is not delivered, the result stays undecided. -/
def ansStep (bind : String → St → Option St) (s : St) (es : List Ev) (fin : Fin) (rest : Res) : Res :=
  match es, fin with
  | [], .oof => ⟨[], .oof⟩
  | _, _ => emitAns bind (rAtom es fin) s rest

/-- `b` = remaining budget. -/
def limitGo (bind : String → St → Option St) (s0 : St) : Nat → List Ev → Fin → Res
  | _, [], fin => ⟨[], finTop fin⟩
  | 0, .tick :: _, _ => exceededRes bind s0
  | b+1, .tick :: es, fin => (limitGo bind s0 b es fin).cons .tick
  | 0, .probe :: _, _ => exceededRes bind s0
  | b+1, .probe :: es, fin => (limitGo bind s0 (b+1) es fin).cons .probe
  | b, .ans s :: es, fin => ansStep bind s es fin (limitGo bind s0 b es fin)

/-- `call(G)` with the extra argument `R` and no limit: every event is passed on. -/
def passGo (bind : String → St → Option St) : List Ev → Fin → Res
  | [], fin => ⟨[], finTop fin⟩
  | .tick :: es, fin => (passGo bind es fin).cons .tick
  | .probe :: es, fin => (passGo bind es fin).cons .probe
  | .ans s :: es, fin => ansStep bind s es fin (passGo bind es fin)

/-- does the limit fire on this trace with budget `b`? -/
def fires : Nat → List Ev → Bool
  | _, [] => false
  | 0, .tick :: _ => true
  | b+1, .tick :: es => fires b es
  | 0, .probe :: _ => true
  | b+1, .probe :: es => fires (b+1) es
  | b, .ans _ :: es => fires b es

/-- the events of the goal that are consumed before the limit fires (all of them if it does not). -/
def passed : Nat → List Ev → List Ev
  | _, [] => []
  | 0, .tick :: _ => []
  | b+1, .tick :: es => .tick :: passed b es
  | 0, .probe :: _ => []
  | b+1, .probe :: es => .probe :: passed (b+1) es
  | b, .ans s :: es => .ans s :: passed b es

/-- solutions delivered while a choice point is certainly left: `R = true`. -/
def annotTrue (bind : String → St → Option St) : List Ev → List Ev
  | [] => []
  | .ans s :: es =>
      match bind "true" s with
      | some s' => .ans s' :: annotTrue bind es
      | .none => annotTrue bind es
  | e :: es => e :: annotTrue bind es

def hasProbe : List Ev → Bool
  | [] => false
  | .probe :: _ => true
  | _ :: es => hasProbe es

/-- the trace of `call_with_inference_limit(G, L, R)` (after its own call) from the trace of
`call(G)`. -/
def limit (bind : String → St → Option St) (s0 : St) (L : Nat) (t : Res) : Res :=
  limitGo bind s0 L t.evs t.fin

/-! ## Layer 1: the instrumented interpreter -/

/-- run `k` on every solution of a trace in order; the tick budget `b` is shared. A continuation
that does not end with `done` (cut, ball, out of fuel) ends the whole run. -/
def seqEv (k : St → Nat → Res) : Nat → List Ev → Fin → Res
  | _, [], fin => ⟨[], fin⟩
  | 0, .tick :: _, _ => Res.oofR
  | b+1, .tick :: es, fin => (seqEv k b es fin).cons .tick
  | b, .probe :: es, fin => (seqEv k b es fin).cons .probe
  | b, .ans s :: es, fin =>
      let r := k s b
      match r.fin with
      | .done => (seqEv k (b - ticks r.evs) es fin).app r.evs
      | _ => r

/-- the events up to (excluding) the first solution, and that solution. -/
def firstAns : List Ev → List Ev × Option St
  | [] => ([], .none)
  | .ans s :: _ => ([], some s)
  | e :: es => let (p, a) := firstAns es; (e :: p, a)

/-- emit one tick (if `counted`) and go on with the remaining budget. -/
def withTick (counted : Bool) (b : Nat) (k : Nat → Res) : Res :=
  if counted then
    match b with
    | 0 => Res.oofR
    | b'+1 => (k b').cons .tick
  else k b

/-- if-then-else / negation skeleton: `rC` is the trace of the condition. `elseTick` says whether
entering the else branch is a counted backtrack (`TrustMe`). -/
def iteRes (rC : Res) (b : Nat) (runT : St → Nat → Res) (elseTick : Bool) (runE : Nat → Res) : Res :=
  match firstAns rC.evs with
  | (pre, some s1) => (runT s1 (b - ticks pre)).app pre
  | (pre, .none) =>
      match rC.fin with
      | .done => (withTick elseTick (b - ticks pre) runE).app pre
      | .cut => (withTick elseTick (b - ticks pre) runE).app pre
      | f => ⟨pre, f⟩

/-- principal functors that are control constructs for `call/1` (their cost through `call/1` is not
mirrored: the model gives up, `oof`). -/
def isControl : Term → Bool
  | .atom "!" => true
  | .str "," [_, _] => true
  | .str ";" [_, _] => true
  | .str "->" [_, _] => true
  | .str "\\+" [_] => true
  | .str "call" _ => true
  | .var _ => true
  | .int _ => true
  | .rat _ _ => true
  | .flt _ => true
  | _ => false

def headArgs : Term → List Term
  | .str _ as => as
  | _ => []

def isConst : Term → Bool
  | .atom _ => true
  | .int _ => true
  | _ => false

def allConstFirst (cls : List Clause) : Bool :=
  cls.all fun c => match headArgs c.head with
    | a :: _ => isConst a
    | [] => false

/-- first-argument indexing for the two predicate shapes the generator produces: a predicate whose
clauses (≥ 2) all have an atomic first argument is one indexed run (a call with a bound first
argument only tries the clauses filed under that constant); every other predicate is tried clause
by clause. -/
def candidates (n : Nat) (σ : Subst) (args : List Term) (cls : List Clause) : Option (List Clause) :=
  match args with
  | a :: _ =>
      if cls.length ≥ 2 && allConstFirst cls then
        match walk n σ a with
        | .none => .none
        | some (.var _) => some cls
        | some t => some (cls.filter fun c => match headArgs c.head with
            | h :: _ => constEq h t
            | [] => false)
      else some cls
  | [] => some cls

/-- try the candidate clauses in order; every alternative after the first costs one tick
(`retry_me_else` / `trust_me` / `retry` / `trust`) whether or not its head unifies. A cut in the
body ends the predicate. -/
def clauseLoop (rec : Term → St → Bool → Nat → Res) (n : Nat) (goal : Term) (s : St) :
    Bool → Nat → List Clause → Res
  | _, _, [] => Res.none
  | first, b, cl :: rest =>
      withTick (!first) b fun b1 =>
        match unify n s.σ goal (rename (sfx s.ctr) cl.head) with
        | .none => Res.oofR
        | some .none => clauseLoop rec n goal s false b1 rest
        | some (some σ') =>
          let r := rec (rename (sfx s.ctr) cl.body) ⟨σ', s.ctr + 1⟩ true b1
          match r.fin with
          | .done => (clauseLoop rec n goal s false (b1 - ticks r.evs) rest).app r.evs
          | .cut => ⟨r.evs, .done⟩
          | _ => r

def raiseR (n : Nat) (s : St) (ball : Term) : Res :=
  match resolve n s.σ ball with
  | .none => Res.oofR
  | some b => ⟨[], .exc (rename (sfx s.ctr) b) (s.ctr + 1)⟩

def bindWith (n : Nat) (r : Term) (a : String) (s : St) : Option St :=
  match unify n s.σ r (.atom a) with
  | some (some σ') => some ⟨σ', s.ctr⟩
  | _ => .none

def cwilCtx : Term := indicator "call_with_inference_limit" 3

/-- the argument check of `call_with_inference_limit/3`. -/
inductive LimArg where
  | ok (l : Nat)
  | err (formal : Term)
  | oof

def checkLimit (n : Nat) (σ : Subst) (l : Term) : LimArg :=
  match walk n σ l with
  | .none => .oof
  | some (.int v) => if v < 0 then .err (domErr "not_less_than_zero" (.int v)) else .ok v.toNat
  | some (.var _) => .err instErr
  | some t => .err (typeErr "integer" t)

/-- the goal of a meta-call that the model can cost: a plain predicate call. -/
def metaGoal (n : Nat) (σ : Subst) (g : Term) : Option Term :=
  match resolve n σ g with
  | .none => .none
  | some g' => if isControl g' then .none else some g'

/-- one level of the interpreter. `counted`: is the call of this goal itself an inference
(false only for the goal / recovery of `catch/3`); `b`: ticks this run may still emit. -/
def step (prog : Prog) (rec : Term → St → Bool → Nat → Res) (n : Nat) (g : Term) (s : St)
    (counted : Bool) (b : Nat) : Res :=
  match g with
  | .atom "!" => ⟨[.ans s], .cut⟩
  | .str "," [a, c] =>
      let rA := rec a s true b
      seqEv (fun s' b' => rec c s' true b') b rA.evs rA.fin
  | .str ";" [.str "->" [c, t], e] =>
      iteRes (rec c s true b) b (fun s' b' => rec t s' true b') true (fun b' => rec e s true b')
  | .str ";" [a, c] =>
      let rA := rec a s true b
      match rA.fin with
      | .done => (withTick true (b - ticks rA.evs) fun b' => rec c s true b').app rA.evs
      | _ => rA
  | .str "->" [c, t] =>
      iteRes (rec c s true b) b (fun s' b' => rec t s' true b') false (fun _ => Res.none)
  | .str "\\+" [c] =>
      iteRes (rec c s true b) b (fun _ _ => Res.none) true (fun _ => Res.one s)
  | .var v =>
      match metaGoal n s.σ (.var v) with
      | .none => Res.oofR
      | some g' => let r := rec g' s counted b; ⟨r.evs, match r.fin with | .cut => .done | f => f⟩
  | .str "call" [g1] =>
      match metaGoal n s.σ g1 with
      | .none => Res.oofR
      | some g' => let r := rec g' s counted b; ⟨r.evs, match r.fin with | .cut => .done | f => f⟩
  | .atom "$fact" => Res.one s
  | .atom "true" => withTick counted b fun _ => Res.one s
  | .atom "fail" => withTick counted b fun _ => Res.none
  | .atom "false" => withTick counted b fun _ => Res.none
  | .str "=" [x, y] =>
      withTick counted b fun _ =>
        match unify n s.σ x y with
        | .none => Res.oofR
        | some .none => Res.none
        | some (some σ') => Res.one ⟨σ', s.ctr⟩
  | .str "throw" [ball] =>
      withTick counted b fun _ =>
        match resolve n s.σ ball with
        | .none => Res.oofR
        | some (.var _) => raiseR n s (mkError instErr)
        | some b' => ⟨[], .exc (rename (sfx s.ctr) b') (s.ctr + 1)⟩
  | .str "catch" [g1, c, r] =>
      withTick counted b fun b1 =>
        match metaGoal n s.σ g1 with
        | .none => Res.oofR
        | some g' =>
          let rG := rec g' s false b1
          match rG.fin with
          | .exc ball c' =>
              match unify n s.σ c ball with
              | .none => Res.oofR
              | some .none => rG
              | some (some σ') =>
                match metaGoal n σ' r with
                | .none => Res.oofR
                | some r' =>
                  let rR := rec r' ⟨σ', c'⟩ false (b1 - ticks rG.evs)
                  ⟨rG.evs ++ rR.evs, match rR.fin with | .cut => .done | f => f⟩
          | .cut => ⟨rG.evs, .done⟩
          | _ => rG
  | .str "call_with_inference_limit" [g1, l, r] =>
      withTick counted b fun b1 =>
        match checkLimit n s.σ l with
        | .oof => Res.oofR
        | .err f => raiseR n s (mkError f)
        | .ok lim =>
          match metaGoal n s.σ g1 with
          | .none => Res.oofR
          | some g' =>
            let rG := rec g' s true (if lim < b1 then lim + 1 else b1)
            limit (bindWith n r) s lim rG
  | .atom a =>
      let cls := prog.filter (clauseMatches a 0)
      match cls with
      | [] => raiseR n s (mkError (existErr a 0))
      | _ => withTick counted b fun b1 => clauseLoop rec n (.atom a) s true b1 cls
  | .str f args =>
      let cls := prog.filter (clauseMatches f args.length)
      match cls with
      | [] => raiseR n s (mkError (existErr f args.length))
      | _ =>
        withTick counted b fun b1 =>
          match candidates n s.σ args cls with
          | .none => Res.oofR
          | some cs => clauseLoop rec n (.str f args) s true b1 cs
  | _ => Res.oofR

/-- the instrumented interpreter: fuel `n` bounds the nesting depth, `b` the number of ticks. -/
def run : Nat → Prog → Term → St → Bool → Nat → Res
  | 0, _, _, _, _, _ => Res.oofR
  | n+1, prog, g, s, counted, b => step prog (run n prog) n g s counted b

/-! ## Layer 2: the counter -/

/-- `struct CWIL` (machine_state.rs). `limits`: top of the stack first; an entry is
(absolute limit on `localCount`, block). `u128` arithmetic is modelled by `Nat`
(`strict_add` overflow panics in the implementation: finding C40-3). -/
structure CWIL where
  localCount : Nat
  globalCount : Nat
  limits : List (Nat × Nat)
  exceeded : Bool
  deriving Repr, Inhabited, DecidableEq

def CWIL.new : CWIL := ⟨0, 0, [], false⟩

/-- `CWIL::add_limit`: the limit becomes absolute; it is pushed unless an enclosing limit is at
least as tight. Returns the current local count. -/
def CWIL.addLimit (c : CWIL) (limit block : Nat) : CWIL × Nat :=
  let lim := limit + c.localCount
  match c.limits with
  | (inner, _) :: _ =>
      if inner ≤ lim then (c, c.localCount)
      else ({ c with limits := (lim, block) :: c.limits }, c.localCount)
  | [] => ({ c with limits := [(lim, block)] }, c.localCount)

/-- `CWIL::remove_limit`: pops only if the top entry belongs to `block`. -/
def CWIL.removeLimit (c : CWIL) (block : Nat) : CWIL × Nat :=
  match c.limits with
  | (_, bl) :: rest => if bl == block then ({ c with limits := rest }, c.localCount) else (c, c.localCount)
  | [] => (c, c.localCount)

/-- `CWIL::reset`. -/
def CWIL.reset (c : CWIL) : CWIL := { c with localCount := 0, limits := [], exceeded := false }

/-- `MachineState::increment_call_count` (`ball`: a ball is pending). Returns the block to unwind
to when the limit fires. -/
def CWIL.increment (c : CWIL) (ball : Bool) : CWIL × Option Nat :=
  if c.exceeded || ball then (c, .none)
  else
    let c := { c with globalCount := c.globalCount + 1 }
    match c.limits with
    | (limit, block) :: _ =>
        if c.localCount == limit then ({ c with exceeded := true }, some block)
        else ({ c with localCount := c.localCount + 1 }, .none)
    | [] => (c, .none)

/-- `'$remove_call_policy_check'(B)` with `det` = (`B` is the current choice point). -/
def CWIL.removeCallPolicyCheck (c : CWIL) (det : Bool) : CWIL :=
  if det && c.limits.isEmpty then c.reset else c

/-- what the library does with the counter, seen from outside:
`enter L` = `'$install_inference_counter'(NBb, L, _)` of a new innermost level (first clause, or the
re-installation with the remaining budget when the goal is re-entered);
`tick` = one `increment_call_count`;
`leave` = `'$remove_inference_counter'(NBb, _)` of the innermost level (solution delivered, goal
failed, ball passing through, or limit handled). -/
inductive Op where
  | enter (l : Nat)
  | tick
  | leave
  deriving Repr, DecidableEq

/-- mechanism state: the counter and the number of active levels (level `k`'s block is `k`; a
deeper level has a larger block, as choice point addresses do). `fixed` selects the repaired
handler (flag cleared when the limit has been handled) or the pinned one (flag only cleared by
`reset`, i.e. when no limit is left and the exit is deterministic: `det`). -/
structure MSt where
  c : CWIL
  depth : Nat
  deriving Repr

/-- the handler / exit code of the innermost level: `'$remove_inference_counter'(NBb, _)`, (repaired:
clear the flag), `'$remove_call_policy_check'(B)`. -/
def mleave (fixed : Bool) (m : MSt) : MSt :=
  let c1 := (m.c.removeLimit m.depth).1
  let c2 := if fixed then { c1 with exceeded := false } else c1
  ⟨c2.removeCallPolicyCheck true, m.depth - 1⟩

/-- one operation on the mechanism; the observation is the level that fired (if any). When level
`j` fires the stack is unwound to its block (deeper levels are gone) and the second clause of
`call_with_inference_limit/5` of level `j` runs (`mleave`). -/
def mstep (fixed : Bool) (m : MSt) : Op → MSt × Option Nat
  | .enter l => (⟨(m.c.addLimit l (m.depth + 1)).1, m.depth + 1⟩, .none)
  | .tick =>
      match m.c.increment false with
      | (c', some j) => (mleave fixed ⟨c', j⟩, some j)
      | (c', .none) => (⟨c', m.depth⟩, .none)
  | .leave => (mleave fixed m, .none)

def mrun (fixed : Bool) : MSt → List Op → List (Option Nat)
  | _, [] => []
  | m, op :: ops => let (m', o) := mstep fixed m op; o :: mrun fixed m' ops

/-- specification: the remaining budgets of the active levels, innermost first. -/
abbrev Spec := List Nat

/-- the outermost level whose budget is exhausted (levels are numbered from 1 = outermost). -/
def firing : Spec → Option Nat
  | [] => .none
  | r :: rest =>
      match firing rest with
      | some j => some j
      | .none => if r == 0 then some (rest.length + 1) else .none

/-- keep the `j` outermost levels. -/
def keepOuter (j : Nat) (rs : Spec) : Spec := rs.drop (rs.length - j)

def sstep (rs : Spec) : Op → Spec × Option Nat
  | .enter l => (l :: rs, .none)
  | .tick =>
      match firing rs with
      | some j => (keepOuter (j - 1) rs, some j)
      | .none => (rs.map (· - 1), .none)
  | .leave => (rs.drop 1, .none)

def srun : Spec → List Op → List (Option Nat)
  | _, [] => []
  | rs, op :: ops => let (rs', o) := sstep rs op; o :: srun rs' ops

end Scryer.Cwil
