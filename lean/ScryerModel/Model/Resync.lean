import ScryerModel.Extracted.CharClass
/-!
# Scryer.Resync — a total tokenizer with error positions, and the reader's resynchronisation

Executable model of `/repo/src/parser/lexer.rs` (`next_token` and everything below it) that keeps
only *positions*: a token is its kind and the remaining input; a lexical error is its kind and the
remaining input (where the implementation's reader is left). On top of it: `read_tokens`
(`parser.rs`), `MachineState::read` (`read.rs`) and the loop "read terms until end_of_file".

Reader state = the remaining `List Char`: `lookahead_char` = head (`[]` = end of input),
`skip_char` = tail, `return_char c` = `c :: rest`.

Every scanner is a one-character-per-step automaton, structurally recursive on the input, so the
definitions are total by construction; the only general loops (`read_tokens`, skip mode, the
sequence of reads) carry explicit fuel and are proved never to run out of it.

`fixed = true` is the REPAIRED behaviour (findings C17-1, C17-2): a character that cannot start a
token is consumed by the error it raises, NUL is such a character, and an error inside a quoted
item leaves the reader after the item's closing quote (`skipQ`). `fixed = false` is the pinned code.
Character classes come from `Extracted/CharClass.lean` (generated from `src/parser/macros.rs`);
`u : UC` = Rust's Unicode predicates.
-/
namespace Scryer.Resync
open Scryer.CharClass

/-- token kinds (`lexer.rs::Token`, values dropped) -/
inductive Kind where
  | name      -- Literal(Atom)
  | var       -- Var
  | num       -- Literal(Integer/Fixnum/F64)
  | str       -- String (double quoted)
  | punct     -- ) [ ] { } | ,
  | openT     -- Open   (layout before the parenthesis)
  | openCT    -- OpenCT
  | endT      -- End
  deriving DecidableEq, Repr

/-- `ParserErrorKind` as far as the lexer raises it -/
inductive Err where
  | eof                  -- IO(UnexpectedEof): the input ended inside a token or before one
  | unexpectedChar       -- UnexpectedChar
  | invalidSingleQuoted  -- InvalidSingleQuotedCharacter
  | missingQuote         -- MissingQuote
  | incomplete           -- IncompleteReduction
  | bigInt               -- ParseBigInt
  | utf8                 -- Utf8Error
  | backQuoted           -- BackQuotedString
  deriving DecidableEq, Repr

def Err.atom : Err → String
  | .eof => "unexpected_end_of_file"
  | .unexpectedChar => "unexpected_char"
  | .invalidSingleQuoted => "invalid_single_quoted_character"
  | .missingQuote => "missing_quote"
  | .incomplete => "incomplete_reduction"
  | .bigInt => "cannot_parse_big_int"
  | .utf8 => "utf8_conversion_error"
  | .backQuoted => "back_quoted_string"

/-- result of one lexer call: a token, an error (both with the reader's remaining input), or a
    Rust panic (`unwrap` on an empty token text) — proved unreachable. -/
inductive R where
  | tok (k : Kind) (rest : List Char)
  | err (e : Err) (rest : List Char)
  | panic
  deriving DecidableEq, Repr

/-! ## layout: `scan_for_layout`, `single_line_comment`, `bracketed_comment` -/

inductive LS where
  | base | line | block | star
  deriving DecidableEq, Repr

/-- result of a layout scan; every error happens with the input exhausted -/
inductive LR where
  | ok (inserted : Bool) (rest : List Char)
  | err (e : Err)
  deriving DecidableEq, Repr

def layoutGo (u : UC) : LS → Bool → List Char → LR
  | .base, ins, [] => .ok ins []
  | .base, ins, c :: r =>
    if layout_char u c then layoutGo u .base true r
    else if end_line_comment_char u c then layoutGo u .line ins r
    else if comment_1_char u c then
      match r with
      | [] => .err .eof                         -- `lookahead_char()?` after skipping '/'
      | d :: r' =>
        if comment_2_char u d then
          (match r' with
           | [] => .err .eof                    -- `lookahead_char()?` after skipping '*'
           | _ :: _ => layoutGo u .block ins r')
        else .ok ins (c :: r)                   -- return_char('/'); more = false
    else .ok ins (c :: r)
  | .line, _, [] => .ok true []
  | .line, ins, c :: r => if new_line_char u c then layoutGo u .base true r else layoutGo u .line ins r
  | .block, _, [] => .err .incomplete
  | .block, ins, c :: r => if comment_2_char u c then layoutGo u .star ins r else layoutGo u .block ins r
  | .star, _, [] => .err .incomplete
  | .star, ins, c :: r =>
    if comment_1_char u c then layoutGo u .base true r
    else if comment_2_char u c then layoutGo u .star ins r
    else layoutGo u .block ins r

/-- `scan_for_layout`: at end of input the very first `lookahead_char` fails -/
def scanLayout (u : UC) : List Char → LR
  | [] => .err .eof
  | s => layoutGo u .base false s

/-! ## runs: `variable_token`, the letter-digit and graphic branches of `name_token` -/

/-- `loop { c = lookahead_char()?; if p(c) { skip } else { break } }`: end of input is an error -/
def runTok (p : Char → Bool) (k : Kind) : List Char → R
  | [] => .err .eof []
  | c :: r => if p c then runTok p k r else .tok k (c :: r)

/-! ## quoted items -/

/-- `get_non_quote_char`'s unescaped characters -/
def plainQ (u : UC) (c : Char) : Bool :=
  graphic_char u c || alpha_numeric_char u c || solo_char u c || space_char u c

/-- `get_control_escape_sequence` -/
def isControlEscape (c : Char) : Bool :=
  c == 'a' || c == 'b' || c == 'v' || c == 'f' || c == 't' || c == 'n' || c == 'r'

def hexVal (c : Char) : Nat :=
  if c.isDigit then c.toNat - 48 else if 'a' ≤ c && c ≤ 'f' then c.toNat - 87 else c.toNat - 55

/-- `char::try_from(u32)` succeeds -/
def isScalar (n : Nat) : Bool := n < 0xD800 || (0xDFFF < n && n ≤ 0x10FFFF)

/-- which quoted reader: `'…'` (`name_token`), `"…"` (`char_code_list_token`), `0'c` (`number_token`) -/
inductive QM where
  | sq | dq | ch
  deriving DecidableEq, Repr

def QM.q : QM → Char
  | .dq => '"'
  | _ => '\''

/-- the quote characters that stand for themselves inside the item -/
def QM.other (m : QM) (c : Char) : Bool :=
  match m with
  | .dq => c == '\'' || c == '`'
  | _ => c == '"' || c == '`'

/-- the error raised when the item loop stops at a character that is not the closing quote -/
def QM.bad : QM → Err
  | .sq => .invalidSingleQuoted
  | .dq => .missingQuote
  | .ch => .unexpectedChar

inductive QS where
  | items            -- between items
  | oct (n : Nat)    -- inside `\ooo`, value so far
  | hex (n : Nat)    -- inside `\xhh`, value so far
  deriving DecidableEq, Repr

/-- end of `escape_sequence_to_char`: the closing backslash has just been consumed (`rest`) -/
def escValue (n : Nat) : Option Err :=
  if n > 0xFFFFFFFF then some .bigInt          -- u32::from_str_radix overflows
  else if !isScalar n then some .utf8          -- char::try_from
  else none

/-- `consume_chars_with!(token, get_*_quoted_item())` + the closing quote (`sq`, `dq`), or the single
    `get_single_quoted_char` of `0'c` (`ch`). The opening quote has been consumed.
    A backslash is neither a quote nor a plain character, so testing it first is the code's order. -/
def qGo (u : UC) (m : QM) : QS → List Char → R
  | _, [] => .err .eof []
  | .items, c :: r =>
    if backslash_char u c then
      match r with
      | [] => .err .eof []
      | d :: r' =>
        if new_line_char u d then
          (match m with
           | .ch => .tok .num ('\'' :: r')           -- `0'\<nl>`: the integer 0, a quote is put back
           | _ => qGo u m .items r')                -- continuation line
        else if meta_char u d then
          (match m with | .ch => .tok .num r' | _ => qGo u m .items r')
        else if octal_digit_char u d then qGo u m (.oct (d.toNat - 48)) r'
        else if symbolic_hexadecimal_char u d then
          match r' with
          | [] => .err .eof []
          | h :: r'' =>
            if hexadecimal_digit_char u h then qGo u m (.hex (hexVal h)) r''
            else .err .incomplete (h :: r'')
        else if isControlEscape d then
          (match m with | .ch => .tok .num r' | _ => qGo u m .items r')
        else .err m.bad (d :: r')                   -- unexpected_char(d): the backslash stays consumed
    else if c == m.q then
      match r with
      | [] => .err .eof []
      | d :: r' =>
        if d == m.q then (match m with | .ch => .tok .num r' | _ => qGo u m .items r')
        else
          match m with
          | .sq => .tok .name (d :: r')
          | .dq => .tok .str (d :: r')
          | .ch => .tok .num ('\'' :: c :: d :: r')   -- `0''x`: the integer 0, both quotes put back
    else if m.other c || plainQ u c then
      (match m with | .ch => .tok .num r | _ => qGo u m .items r)
    else .err m.bad (c :: r)
  | .oct n, c :: r =>
    if octal_digit_char u c then qGo u m (.oct (n * 8 + (c.toNat - 48))) r
    else if backslash_char u c then
      match escValue n with
      | some e => .err e r
      | none => (match m with | .ch => .tok .num r | _ => qGo u m .items r)
    else .err .incomplete (c :: r)
  | .hex n, c :: r =>
    if hexadecimal_digit_char u c then qGo u m (.hex (n * 16 + hexVal c)) r
    else if backslash_char u c then
      match escValue n with
      | some e => .err e r
      | none => (match m with | .ch => .tok .num r | _ => qGo u m .items r)
    else .err .incomplete (c :: r)

/-- `get_back_quoted_string` after the opening back quote (always ends in an error: a complete
    back-quoted string is `BackQuotedString`) -/
def bqGo (u : UC) : List Char → R
  | [] => .err .eof []
  | c :: r =>
    if backslash_char u c then
      match r with
      | [] => .err .eof []
      | d :: r' => if new_line_char u d then bqGo u r' else .err .missingQuote (c :: r)
    else if back_quote_char u c then
      match r with
      | [] => .err .eof []
      | d :: r' => if back_quote_char u d then bqGo u r' else .err .backQuoted (d :: r')
    else if single_quote_char u c then
      match r with
      | [] => .err .eof []
      | _ :: r' => bqGo u r'                         -- `read_char()`: any character
    else if plainQ u c then bqGo u r
    else .err .missingQuote (c :: r)

/-- REPAIR (C17-1): after an error inside a quoted item the reader is moved behind the item's
    closing quote: a backslash hides the next character, a doubled quote does not close, a raw
    new line (never part of a quoted item) or the end of input stops the skipping. -/
def skipQ (q : Char) : List Char → List Char
  | [] => []
  | c :: r =>
    if c == '\n' then c :: r
    else if c == '\\' then
      match r with
      | [] => []
      | _ :: r' => skipQ q r'
    else if c == q then
      match r with
      | [] => []
      | d :: r' => if d == q then skipQ q r' else d :: r'
    else skipQ q r

def recoverQ (fixed : Bool) (q : Char) : R → R
  | .err e rest =>
    if fixed && e != .eof && e != .backQuoted then .err e (skipQ q rest) else .err e rest
  | x => x

/-! ## numbers: `number_token` -/

/-- `token.pop().unwrap()` on a token of `n` characters -/
def popTok (n : Nat) : Option Nat := if n = 0 then none else some (n - 1)

/-- digits of the exponent (at least one is present): end of input = `Partial` = an error here -/
def expDigits (u : UC) : List Char → R := runTok (decimal_digit_char u) .num

/-- after the exponent character `ec` (token = `n` characters without it) -/
def expPart (u : UC) (n : Nat) (ec : Char) (r1 : List Char) : R :=
  match r1 with
  | [] =>                                               -- vacate_with_float
    (match popTok (n + 1) with | none => .panic | some _ => .tok .num [ec])
  | c :: r2 =>
    if sign_char u c then
      match r2 with
      | [] =>
        (match popTok (n + 2) with
         | none => .panic
         | some k => match popTok k with | none => .panic | some _ => .tok .num [ec, c])
      | d :: _ =>
        if decimal_digit_char u d then expDigits u r2
        else
          (match popTok (n + 2) with
           | none => .panic
           | some k => match popTok k with | none => .panic | some _ => .tok .num (ec :: c :: r2))
    else if decimal_digit_char u c then expDigits u r1
    else (match popTok (n + 1) with | none => .panic | some _ => .tok .num (ec :: r1))

/-- fraction digits after `I.d` (token = `n` characters) -/
def fracGo (u : UC) : Nat → List Char → R
  | _, [] => .err .eof []                               -- Partial
  | n, c :: r =>
    if decimal_digit_char u c then fracGo u (n + 1) r
    else if exponent_char u c then expPart u n c r
    else .tok .num (c :: r)

/-- `0x`, `0o`, `0b`: `c :: r1` is the input at the radix letter -/
def dropRun (p : Char → Bool) : List Char → List Char
  | [] => []
  | c :: r => if p c then dropRun p r else c :: r

def radixConst (p : Char → Bool) (start : Char) (r1 : List Char) : R :=
  match r1 with
  | [] => .err .eof []
  | c :: _ => if p c then .tok .num (dropRun p r1) else .tok .num (start :: r1)

/-- after the integer digits; `z`: the token is exactly `0`; look-ahead `c` (not a digit, not `_`) -/
def afterInt (u : UC) (z : Bool) (n : Nat) (c : Char) (r : List Char) : R :=
  if decimal_point_char u c then
    match r with
    | [] => .tok .num [c]                               -- peek none: return_char('.')
    | d :: r' => if decimal_digit_char u d then fracGo u (n + 2) r' else .tok .num (c :: r)
  else if z then
    if c == 'x' then radixConst (hexadecimal_digit_char u) c r
    else if c == 'o' then radixConst (octal_digit_char u) c r
    else if c == 'b' then radixConst (binary_digit_char u) c r
    else if single_quote_char u c then qGo u .ch .items r
    else .tok .num (c :: r)
  else .tok .num (c :: r)

inductive NS where
  | digits            -- just after a digit
  | und (l : LS)      -- after `_`, inside the layout that may follow it
  deriving DecidableEq, Repr

/-- the integer part with `skip_underscore_in_number` (a `_`, then layout text, then a digit) -/
def intGo (u : UC) : NS → Bool → Nat → List Char → R
  | .digits, _, _, [] => .err .eof []                   -- Partial
  | .digits, z, n, c :: r =>
    if c == '_' then intGo u (.und .base) z n r
    else if decimal_digit_char u c then intGo u .digits false (n + 1) r
    else afterInt u z n c r
  | .und .base, _, _, [] => .err .bigInt []
  | .und .base, z, n, c :: r =>
    if layout_char u c then intGo u (.und .base) z n r
    else if end_line_comment_char u c then intGo u (.und .line) z n r
    else if comment_1_char u c then
      match r with
      | [] => .err .bigInt []
      | d :: r' =>
        if comment_2_char u d then
          (match r' with
           | [] => .err .bigInt []
           | _ :: _ => intGo u (.und .block) z n r')
        else .err .bigInt (c :: r)
    else if decimal_digit_char u c then intGo u .digits false (n + 1) r
    else .err .bigInt (c :: r)
  | .und .line, _, _, [] => .err .bigInt []
  | .und .line, z, n, c :: r =>
    if new_line_char u c then intGo u (.und .base) z n r else intGo u (.und .line) z n r
  | .und .block, _, _, [] => .err .incomplete []
  | .und .block, z, n, c :: r =>
    if comment_2_char u c then intGo u (.und .star) z n r else intGo u (.und .block) z n r
  | .und .star, _, _, [] => .err .incomplete []
  | .und .star, z, n, c :: r =>
    if comment_1_char u c then intGo u (.und .base) z n r
    else if comment_2_char u c then intGo u (.und .star) z n r
    else intGo u (.und .block) z n r

/-! ## `next_token` -/

/-- the dispatch of `next_token` after the layout scan (`ins` = layout_inserted), then `name_token` -/
def tokAt (u : UC) (fixed : Bool) (ins : Bool) : List Char → R
  | [] => .err .eof []
  | c :: r =>
    if capital_letter_char u c || variable_indicator_char u c then
      runTok (alpha_numeric_char u) .var r
    else if c == ',' then .tok .punct r
    else if c == ')' then .tok .punct r
    else if c == '(' then .tok (if ins then .openT else .openCT) r
    else if c == '.' then
      match r with
      | [] => .tok .endT []
      | d :: r' =>
        if layout_char u d || d == '%' then .tok .endT (if new_line_char u d then r' else d :: r')
        else runTok (graphic_token_char u) .name r        -- return_char('.'); name_token('.')
    else if decimal_digit_char u c then intGo u .digits (c == '0') 1 r
    else if c == ']' then .tok .punct r
    else if c == '[' then .tok .punct r
    else if c == '|' then .tok .punct r
    else if c == '{' then .tok .punct r
    else if c == '}' then .tok .punct r
    else if c == '"' then recoverQ fixed '"' (qGo u .dq .items r)
    else if c == '\x00' && !fixed then .err .eof (c :: r)   -- pinned: NUL is "end of file", not consumed
    -- name_token(c)
    else if small_letter_char u c then runTok (alpha_numeric_char u) .name r
    else if graphic_token_char u c then runTok (graphic_token_char u) .name r
    else if cut_char u c || semicolon_char u c then .tok .name r
    else if single_quote_char u c then recoverQ fixed '\'' (qGo u .sq .items r)
    else if back_quote_char u c then recoverQ fixed '`' (bqGo u r)
    else if fixed then .err .unexpectedChar r             -- repaired: the offending character is consumed
    else .err .unexpectedChar (c :: r)

def nextTok (u : UC) (fixed : Bool) (s : List Char) : R :=
  match scanLayout u s with
  | .err e => .err e []
  | .ok ins r => tokAt u fixed ins r

/-! ## `read_tokens`, skip mode, `MachineState::read`, the sequence of reads -/

/-- what one `read_term/2` call delivers -/
inductive Outcome where
  | clause (ntoks : Nat)   -- all tokens through the end token were read (`ntoks` before it): the
                           -- parser then yields a term or a syntax error, the input is consumed
  | error (e : Err)        -- a lexical syntax error
  | eof                    -- end_of_file
  deriving DecidableEq, Repr

/-- REPAIR (C17-1) `Lexer::skip_to_end_token`: keep reading tokens, ignoring errors, until an end
    token has been consumed or the input is exhausted. `none` = out of fuel / panic (unreachable). -/
def skipGo (u : UC) : Nat → List Char → Option (List Char)
  | 0, _ => none
  | f + 1, s =>
    match nextTok u true s with
    | .tok .endT rest => some rest
    | .tok _ rest => skipGo u f rest
    | .err .eof _ => some []
    | .err _ rest => skipGo u f rest
    | .panic => none

def skipToEnd (u : UC) (s : List Char) : Option (List Char) := skipGo u (s.length + 1) s

/-- `read_tokens` followed (repaired code) by skip mode on a lexical error. -/
def tokensGo (u : UC) (fixed : Bool) : Nat → Nat → List Char → Option (Outcome × List Char)
  | 0, _, _ => none
  | f + 1, n, s =>
    match nextTok u fixed s with
    | .tok .endT rest => some (.clause n, rest)
    | .tok _ rest => tokensGo u fixed f (n + 1) rest
    | .err .eof rest =>
      -- repaired: the input ended inside a clause; pinned: NUL also lands here (rest ≠ [])
      some (if fixed || n > 0 then .error .incomplete else .eof, rest)
    | .err e rest =>
      if fixed then (skipToEnd u rest).map fun r => (.error e, r) else some (.error e, rest)
    | .panic => none

/-- `MachineState::read` (repaired, C17-3: layout and comments before the end of input are not a
    clause): `devour_whitespace`, end of input → end_of_file, otherwise the tokens of one clause. -/
def readClause (u : UC) (s : List Char) : Option (Outcome × List Char) :=
  match scanLayout u s with
  | .err .eof => some (.eof, [])
  | .err e => some (.error e, [])          -- unterminated block comment
  | .ok _ [] => some (.eof, [])
  | .ok _ r => tokensGo u true (r.length + 1) 0 r

/-- the pinned `read`: no layout pre-scan; `end_of_file` only if nothing at all was consumed on the
    current line (`error_after_read_term`), which the position-only model approximates by "the
    input was empty". -/
def readClausePinned (u : UC) (s : List Char) : Option (Outcome × List Char) :=
  match s with
  | [] => some (.eof, [])
  | _ => tokensGo u false (s.length + 1) 0 s

/-- read until end_of_file: the outcomes, each with the number of characters its read consumed.
    `none` = out of fuel (unreachable for the repaired reader). -/
def readsGo (u : UC) : Nat → List Char → Option (List (Outcome × Nat))
  | 0, _ => none
  | f + 1, s =>
    match readClause u s with
    | none => none
    | some (.eof, _) => some []
    | some (o, rest) => (readsGo u f rest).map fun l => (o, s.length - rest.length) :: l

def reads (u : UC) (s : List Char) : Option (List (Outcome × Nat)) := readsGo u (s.length + 1) s

/-- the pinned reader, at most `k` reads (it need not terminate) -/
def readsPinned (u : UC) : Nat → List Char → List (Outcome × Nat)
  | 0, _ => []
  | k + 1, s =>
    match readClausePinned u s with
    | none => []
    | some (.eof, _) => []
    | some (o, rest) => (o, s.length - rest.length) :: readsPinned u k rest

/-! ## the end-token detector as a stand-alone predicate -/

/-- the input (after layout) stands at an end token: `.` followed by layout, `%` or the end -/
def atEnd (u : UC) : List Char → Bool
  | '.' :: [] => true
  | '.' :: d :: _ => layout_char u d || d == '%'
  | _ => false

end Scryer.Resync
