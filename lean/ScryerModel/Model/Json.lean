/-
Model of `src/lib/serialization/json.pl` (`json_chars//1`), property C41.

What is modelled
* `J` is the documented term form: `pairs([string(K)-V,…])`, `list([…])`, `string(Cs)`,
  `number(N)`, `boolean(B)`, `null`. Objects are ORDERED pair lists (duplicates allowed),
  strings are lists of characters (Lean `Char` = Unicode scalar value = a Prolog character).
* `gen` is the FIRST answer of `phrase(json_chars(V), Cs)` with `Cs` unbound: no white space,
  the eight two-character escapes of `escape_char/2` (including `\/`), `\u00xx` (lower-case hex)
  for the other characters below 32, every other character raw, integers through
  `number_chars/2`.
* `parse` is the grammar `phrase(json_chars(V), Cs)` accepts with `Cs` bound (McKeeman/RFC 8259
  form): a deterministic recursive-descent reading of the DCG. It is total (structural
  recursion on explicit fuel; `Proofs/Json.lean` shows the fuel `2·length+2` is always enough, so
  `none` always means "rejected", never "out of fuel").

Numbers. The library decides the TYPE of a number syntactically: no fraction part and an
exponent ≥ 0 gives the integer `Sign*Int*10^Exp`; everything else is a float. An integer is
`Num.int`. A float token is modelled by the EXACT decimal it denotes, `Num.dec neg m e` =
(-1)^neg · m · 10^e, normalised (`m` has no trailing zero; zero is `dec false 0 0`), so that two
spellings of the same decimal give the same value. Turning that decimal into an IEEE double
(round to nearest even) is NOT modelled: the correspondence check does it in Python.
`gen` writes a `dec` in the canonical spelling `[-]m.0e<e>` (the library prints the shortest
digits of the double instead; the check judges the library's float output by parsing it).

Deliberate difference to today's code: a `\uD8xx\uDCxx` surrogate pair decodes to one code
point (RFC 8259 §7); the library raises `representation_error(character_code)` (finding C41-1).

This file imports nothing so that the driver links as a plain executable.
-/
namespace Scryer.Json

/-! ## values -/

inductive Num where
  | int (n : Int)
  | dec (neg : Bool) (m : Nat) (e : Int)
  deriving Repr, DecidableEq, Inhabited

mutual
  inductive J where
    | null : J
    | bool (b : Bool) : J
    | num (n : Num) : J
    | str (s : List Char) : J
    | arr (xs : JL) : J
    | obj (ms : JM) : J
  /-- the elements of `list([…])` -/
  inductive JL where
    | nil : JL
    | cons (x : J) (xs : JL) : JL
  /-- the members of `pairs([string(K)-V,…])`, in order -/
  inductive JM where
    | nil : JM
    | cons (k : List Char) (v : J) (ms : JM) : JM
end

instance : Inhabited J := ⟨.null⟩

/-- canonical numbers: a decimal has no trailing zero in its mantissa; zero is `dec false 0 0`. -/
def Num.wf : Num → Prop
  | .int _ => True
  | .dec neg m e => (m = 0 → e = 0 ∧ neg = false) ∧ (m ≠ 0 → m % 10 ≠ 0)

mutual
  def J.wf : J → Prop
    | .num n => n.wf
    | .arr xs => xs.wf
    | .obj ms => ms.wf
    | _ => True
  def JL.wf : JL → Prop
    | .nil => True
    | .cons x xs => x.wf ∧ xs.wf
  def JM.wf : JM → Prop
    | .nil => True
    | .cons _ v ms => v.wf ∧ ms.wf
end

/-! ## characters -/

/-- `json_ws_nonempty//0` -/
def isWs (c : Char) : Bool := c == ' ' || c == '\n' || c == '\r' || c == '\t'

/-- `json_ws//0` when parsing (greedy) -/
def skipWs : List Char → List Char
  | [] => []
  | c :: r => if isWs c then skipWs r else c :: r

/-- `json_digit//1` -/
def isDigit (c : Char) : Bool := decide (48 ≤ c.toNat) && decide (c.toNat ≤ 57)
def digitVal (c : Char) : Nat := c.toNat - 48

def digitChar : Nat → Char
  | 0 => '0' | 1 => '1' | 2 => '2' | 3 => '3' | 4 => '4'
  | 5 => '5' | 6 => '6' | 7 => '7' | 8 => '8' | _ => '9'

/-- `json_hex//1`: digits, `a`–`f`, `A`–`F` -/
def hexVal (c : Char) : Option Nat :=
  if isDigit c then some (c.toNat - 48)
  else if 97 ≤ c.toNat ∧ c.toNat ≤ 102 then some (c.toNat - 87)
  else if 65 ≤ c.toNat ∧ c.toNat ≤ 70 then some (c.toNat - 55)
  else none

/-- the hex digit the generator finds first (`json_hex//1` tries `a`–`f` before `A`–`F`) -/
def hexChar : Nat → Char
  | 10 => 'a' | 11 => 'b' | 12 => 'c' | 13 => 'd' | 14 => 'e' | 15 => 'f'
  | n => digitChar n

/-- `escape_char/2`, first argument → second -/
def escapeOf (c : Char) : Option Char :=
  if c = '"' then some '"'
  else if c = '\\' then some '\\'
  else if c = '/' then some '/'
  else if c = '\x08' then some 'b'
  else if c = '\x0c' then some 'f'
  else if c = '\n' then some 'n'
  else if c = '\r' then some 'r'
  else if c = '\t' then some 't'
  else none

/-- `escape_char/2`, second argument → first -/
def unescapeOf (p : Char) : Option Char :=
  if p = '"' then some '"'
  else if p = '\\' then some '\\'
  else if p = '/' then some '/'
  else if p = 'b' then some '\x08'
  else if p = 'f' then some '\x0c'
  else if p = 'n' then some '\n'
  else if p = 'r' then some '\r'
  else if p = 't' then some '\t'
  else none

/-! ## generation -/

/-- first answer of `json_character//1` for a bound character -/
def genChar (c : Char) : List Char :=
  match escapeOf c with
  | some p => ['\\', p]
  | none =>
    if c.toNat < 32 then ['\\', 'u', '0', '0', hexChar (c.toNat / 16), hexChar (c.toNat % 16)]
    else [c]

def genChars : List Char → List Char
  | [] => []
  | c :: cs => genChar c ++ genChars cs

/-- `json_string//1` -/
def genString (s : List Char) : List Char := '"' :: (genChars s ++ ['"'])

def natDigitsF : Nat → Nat → List Char
  | 0, _ => []
  | f + 1, n => if n < 10 then [digitChar n] else natDigitsF f (n / 10) ++ [digitChar (n % 10)]

/-- decimal digits of a natural number, no leading zero (fuel `n+1` is enough: `n/10 < n`) -/
def natDigits (n : Nat) : List Char := natDigitsF (n + 1) n

/-- `number_chars/2` on an integer -/
def genInt (n : Int) : List Char :=
  if n < 0 then '-' :: natDigits n.natAbs else natDigits n.toNat

def genNum : Num → List Char
  | .int n => genInt n
  | .dec neg m e => (if neg then ['-'] else []) ++ (natDigits m ++ ('.' :: '0' :: 'e' :: genInt e))

/-- the `","` of `json_elements//2` / `json_members//2` before a further element -/
def sepL : JL → List Char
  | .nil => []
  | .cons _ _ => [',']
def sepM : JM → List Char
  | .nil => []
  | .cons _ _ _ => [',']

mutual
  /-- first answer of `json_value//1` for a ground term: no white space -/
  def gen : J → List Char
    | .null => ['n', 'u', 'l', 'l']
    | .bool true => ['t', 'r', 'u', 'e']
    | .bool false => ['f', 'a', 'l', 's', 'e']
    | .num n => genNum n
    | .str s => genString s
    | .arr xs => '[' :: genL xs
    | .obj ms => '{' :: genM ms
  /-- `json_elements//2` (or nothing) and the closing bracket -/
  def genL : JL → List Char
    | .nil => [']']
    | .cons x xs => gen x ++ (sepL xs ++ genL xs)
  /-- `json_members//2` (or nothing) and the closing brace -/
  def genM : JM → List Char
    | .nil => ['}']
    | .cons k v ms => genString k ++ (':' :: (gen v ++ (sepM ms ++ genM ms)))
end

/-! ## parsing -/

/-- value of four hex digits -/
def hex4 (a b c d : Char) : Option Nat :=
  match hexVal a, hexVal b, hexVal c, hexVal d with
  | some x, some y, some z, some w => some (x * 4096 + y * 256 + z * 16 + w)
  | _, _, _, _ => none

def isHighSurr (n : Nat) : Bool := decide (0xD800 ≤ n) && decide (n ≤ 0xDBFF)
def isLowSurr (n : Nat) : Bool := decide (0xDC00 ≤ n) && decide (n ≤ 0xDFFF)
/-- the code point a UTF-16 surrogate pair denotes -/
def surrPair (hi lo : Nat) : Nat := 0x10000 + (hi - 0xD800) * 0x400 + (lo - 0xDC00)

/-- `json_characters//1` followed by the closing quote: the text after the opening quote ↦
    (characters, text after the closing quote). -/
def parseChars : List Char → Option (List Char × List Char)
  | [] => none
  | c :: r =>
    if c = '"' then some ([], r)
    else if c = '\\' then
      match r with
      | [] => none
      | p :: r1 =>
        if p = 'u' then
          match r1 with
          | a :: b :: c2 :: d :: r2 =>
            match hex4 a b c2 d with
            | none => none
            | some n =>
              if isLowSurr n then none
              else if isHighSurr n then
                match r2 with
                | b1 :: u1 :: a' :: b' :: c' :: d' :: r3 =>
                  if b1 = '\\' ∧ u1 = 'u' then
                    match hex4 a' b' c' d' with
                    | none => none
                    | some lo =>
                      if isLowSurr lo then
                        match parseChars r3 with
                        | some (cs, rest) => some (Char.ofNat (surrPair n lo) :: cs, rest)
                        | none => none
                      else none
                  else none
                | _ => none
              else
                match parseChars r2 with
                | some (cs, rest) => some (Char.ofNat n :: cs, rest)
                | none => none
          | _ => none
        else
          match unescapeOf p with
          | none => none
          | some e =>
            match parseChars r1 with
            | some (cs, rest) => some (e :: cs, rest)
            | none => none
    else if c.toNat < 32 then none
    else
      match parseChars r with
      | some (cs, rest) => some (c :: cs, rest)
      | none => none

/-- `json_digits//2`, greedy -/
def spanDigits : List Char → List Char × List Char
  | [] => ([], [])
  | c :: r => if isDigit c then ((c :: (spanDigits r).1), (spanDigits r).2) else ([], c :: r)

def digitsVal (ds : List Char) : Nat := ds.foldl (fun a c => a * 10 + digitVal c) 0

def normDecF : Nat → Nat → Int → Nat × Int
  | 0, m, e => (m, e)
  | f + 1, m, e =>
    if m = 0 then (0, 0)
    else if m % 10 = 0 then normDecF f (m / 10) (e + 1)
    else (m, e)

/-- move trailing zeros of the mantissa into the exponent; zero becomes (0,0) -/
def normDec (m : Nat) (e : Int) : Nat × Int := normDecF (m + 1) m e

/-- `json_sign_noplus//1` -/
def optMinus : List Char → Bool × List Char
  | [] => (false, [])
  | c :: r => if c = '-' then (true, r) else (false, c :: r)

/-- `json_sign//1` -/
def optSign : List Char → Bool × List Char
  | [] => (false, [])
  | c :: r => if c = '-' then (true, r) else if c = '+' then (false, r) else (false, c :: r)

/-- `json_fraction//1`: `none` = malformed (`.` without digits) -/
def parseFrac : List Char → Option (Option (List Char) × List Char)
  | [] => some (none, [])
  | c :: r =>
    if c = '.' then
      if (spanDigits r).1 = [] then none else some (some (spanDigits r).1, (spanDigits r).2)
    else some (none, c :: r)

/-- `json_exponent//1`: an absent exponent is 0 -/
def parseExp : List Char → Option (Int × List Char)
  | [] => some (0, [])
  | c :: r =>
    if c = 'e' ∨ c = 'E' then
      let sr := optSign r
      let dr := spanDigits sr.2
      if dr.1 = [] then none
      else some ((if sr.1 then -(digitsVal dr.1 : Int) else (digitsVal dr.1 : Int)), dr.2)
    else some (0, c :: r)

/-- the value clause of `json_number//1`: integer iff no fraction and exponent ≥ 0 -/
def mkNum (neg : Bool) (ids : List Char) (frac : Option (List Char)) (ex : Int) : Num :=
  match frac with
  | none =>
    if 0 ≤ ex then
      .int ((if neg then -1 else 1) * ((digitsVal ids * 10 ^ ex.toNat : Nat) : Int))
    else
      let me := normDec (digitsVal ids) ex
      .dec (neg && me.1 != 0) me.1 me.2
  | some fds =>
    let me := normDec (digitsVal (ids ++ fds)) (ex - (fds.length : Int))
    .dec (neg && me.1 != 0) me.1 me.2

/-- `json_integer//1` accepts one digit, or a non-zero digit followed by digits -/
def intOk (ids : List Char) : Bool :=
  match ids with
  | [] => false
  | [_] => true
  | c :: _ :: _ => c != '0'

/-- `json_number//1` (parsing branch) -/
def parseNumber (s : List Char) : Option (Num × List Char) :=
  let sr := optMinus s
  let ir := spanDigits sr.2
  if intOk ir.1 then
    match parseFrac ir.2 with
    | none => none
    | some (frac, s3) =>
      match parseExp s3 with
      | none => none
      | some (ex, s4) => some (mkNum sr.1 ir.1 frac ex, s4)
  else none

def stripPrefix : List Char → List Char → Option (List Char)
  | [], s => some s
  | _ :: _, [] => none
  | p :: ps, c :: s => if p = c then stripPrefix ps s else none

mutual
  /-- `json_value//1` at a non-white-space position -/
  def parseValue : Nat → List Char → Option (J × List Char)
    | 0, _ => none
    | _ + 1, [] => none
    | f + 1, c :: r =>
      if c = '{' then
        match skipWs r with
        | [] => none
        | d :: r1 =>
          if d = '}' then some (.obj .nil, r1)
          else
            match parseMembers f (d :: r1) with
            | some (ms, rest) => some (.obj ms, rest)
            | none => none
      else if c = '[' then
        match skipWs r with
        | [] => none
        | d :: r1 =>
          if d = ']' then some (.arr .nil, r1)
          else
            match parseElems f (d :: r1) with
            | some (xs, rest) => some (.arr xs, rest)
            | none => none
      else if c = '"' then
        match parseChars r with
        | some (cs, rest) => some (.str cs, rest)
        | none => none
      else if c = 't' then
        match stripPrefix ['r', 'u', 'e'] r with
        | some rest => some (.bool true, rest)
        | none => none
      else if c = 'f' then
        match stripPrefix ['a', 'l', 's', 'e'] r with
        | some rest => some (.bool false, rest)
        | none => none
      else if c = 'n' then
        match stripPrefix ['u', 'l', 'l'] r with
        | some rest => some (.null, rest)
        | none => none
      else
        match parseNumber (c :: r) with
        | some (n, rest) => some (.num n, rest)
        | none => none
  /-- `json_elements//2` and the closing bracket; the input is at the start of a value -/
  def parseElems : Nat → List Char → Option (JL × List Char)
    | 0, _ => none
    | f + 1, s =>
      match parseValue f s with
      | none => none
      | some (v, r) =>
        match skipWs r with
        | [] => none
        | d :: r1 =>
          if d = ',' then
            match parseElems f (skipWs r1) with
            | some (vs, rest) => some (.cons v vs, rest)
            | none => none
          else if d = ']' then some (.cons v .nil, r1)
          else none
  /-- `json_members//2` and the closing brace; the input is at the start of a key -/
  def parseMembers : Nat → List Char → Option (JM × List Char)
    | 0, _ => none
    | _ + 1, [] => none
    | f + 1, q :: s =>
      if q = '"' then
        match parseChars s with
        | none => none
        | some (k, r) =>
          match skipWs r with
          | [] => none
          | col :: r1 =>
            if col = ':' then
              match parseValue f (skipWs r1) with
              | none => none
              | some (v, r2) =>
                match skipWs r2 with
                | [] => none
                | d :: r3 =>
                  if d = ',' then
                    match parseMembers f (skipWs r3) with
                    | some (ms, rest) => some (.cons k v ms, rest)
                    | none => none
                  else if d = '}' then some (.cons k v .nil, r3)
                  else none
            else none
      else none
end

/-- `json_element//1` on a whole text, as `phrase/2` runs it: white space, value, white space,
    end of text. -/
def parseWith (fuel : Nat) (s : List Char) : Option J :=
  match parseValue fuel (skipWs s) with
  | some (v, r) => if skipWs r = [] then some v else none
  | none => none

/-- `phrase(json_chars(V), Cs)` with `Cs` bound: `some V` for the unique answer, `none` = no
    answer. -/
def parse (s : List Char) : Option J := parseWith (2 * s.length + 2) s

/-! ## today's behaviour (pinned tree), kept for the witnesses of findings C41-1 and C41-2

Nothing above depends on this part. -/

/-- TODAY's `json_characters//1`: as `parseChars`, except that `char_code/2` raises
    `representation_error(character_code)` for EVERY surrogate code unit (high or low), which
    aborts the whole `phrase/2`: no answer (finding C41-1). -/
def parseCharsPinned : List Char → Option (List Char × List Char)
  | [] => none
  | c :: r =>
    if c = '"' then some ([], r)
    else if c = '\\' then
      match r with
      | [] => none
      | p :: r1 =>
        if p = 'u' then
          match r1 with
          | a :: b :: c2 :: d :: r2 =>
            match hex4 a b c2 d with
            | none => none
            | some n =>
              if isLowSurr n then none
              else if isHighSurr n then none
              else
                match parseCharsPinned r2 with
                | some (cs, rest) => some (Char.ofNat n :: cs, rest)
                | none => none
          | _ => none
        else
          match unescapeOf p with
          | none => none
          | some e =>
            match parseCharsPinned r1 with
            | some (cs, rest) => some (e :: cs, rest)
            | none => none
    else if c.toNat < 32 then none
    else
      match parseCharsPinned r with
      | some (cs, rest) => some (c :: cs, rest)
      | none => none

/-- the syntactic parts of a number token: sign, integer digits, fraction digits, exponent;
    `parseNumber` is `mkNum` of these (`parseNumber_eq_parts`). -/
def numParts (s : List Char) : Option ((Bool × List Char × Option (List Char) × Int) × List Char) :=
  let sr := optMinus s
  let ir := spanDigits sr.2
  if intOk ir.1 then
    match parseFrac ir.2 with
    | none => none
    | some (frac, s3) =>
      match parseExp s3 with
      | none => none
      | some (ex, s4) => some ((sr.1, ir.1, frac, ex), s4)
  else none

/-- A finite non-negative IEEE binary64 value `m · 2^e`: normal (`2^52 ≤ m < 2^53`,
    `-1074 ≤ e ≤ 971`) or subnormal / zero (`m < 2^52`, `e = -1074`). -/
structure Dbl where
  m : Nat
  e : Int
  deriving Repr, DecidableEq

/-- numerator and denominator of `n/d · 2^(-e)` -/
def scaleBy (n d : Nat) (e : Int) : Nat × Nat :=
  if 0 ≤ e then (n, d * 2 ^ e.toNat) else (n * 2 ^ (-e).toNat, d)

/-- `num/den` rounded to the nearest integer, ties to even -/
def roundHalfEven (num den : Nat) : Nat :=
  let q := num / den
  let r := num % den
  if 2 * r < den then q else if den < 2 * r then q + 1 else q + q % 2

/-- The binary64 value nearest to `n/d` (`d > 0`), ties to even; `none` = overflow (infinity).
    With `a = log2 n`, `b = log2 d`: `n/d·2^-(a-b-52)` lies in `(2^51, 2^53)`, so one of the two
    exponents `a-b-52`, `a-b-53` gives a 53-bit quotient; below `2^-1074` the exponent is clamped
    (gradual underflow). -/
def roundDbl (n d : Nat) : Option Dbl :=
  if n = 0 then some ⟨0, -1074⟩
  else
    let e0 : Int := (Nat.log2 n : Int) - (Nat.log2 d : Int) - 52
    let s0 := scaleBy n d e0
    let e1 : Int := if s0.1 / s0.2 < 2 ^ 52 then e0 - 1 else e0
    let e : Int := if e1 < -1074 then -1074 else e1
    let s := scaleBy n d e
    let q := roundHalfEven s.1 s.2
    let r : Dbl := if q = 2 ^ 53 then ⟨2 ^ 52, e + 1⟩ else ⟨q, e⟩
    if 971 < r.e then none else some r

/-- the exact value `m · 2^e` as numerator / denominator -/
def Dbl.rat (x : Dbl) : Nat × Nat := scaleBy x.m 1 (-x.e)

/-- integer → float conversion -/
def Dbl.ofNat (i : Nat) : Option Dbl := roundDbl i 1
/-- IEEE division, addition, multiplication of non-negative values: exact result, rounded once -/
def Dbl.div (x y : Dbl) : Option Dbl :=
  if y.m = 0 then none else roundDbl (x.rat.1 * y.rat.2) (x.rat.2 * y.rat.1)
def Dbl.add (x y : Dbl) : Option Dbl := roundDbl (x.rat.1 * y.rat.2 + y.rat.1 * x.rat.2) (x.rat.2 * y.rat.2)
def Dbl.mul (x y : Dbl) : Option Dbl := roundDbl (x.rat.1 * y.rat.1) (x.rat.2 * y.rat.2)
/-- `10.0 ^ k` (`powf`), and the integer `10^k` converted to a float: taken to be the double
    nearest to `10^k` (exact for `0 ≤ k ≤ 22`; for other `k` this is an assumption about libm,
    measured by the correspondence run). -/
def Dbl.pow10 (k : Int) : Option Dbl :=
  if 0 ≤ k then roundDbl (10 ^ k.toNat) 1 else roundDbl 1 (10 ^ (-k).toNat)

/-- The magnitude of the double a float token SHOULD be read as: the exact decimal
    `m · 10^e`, rounded once (what the repaired library computes through `number_chars/2`). -/
def nearestMag (m : Nat) (e : Int) : Option Dbl :=
  if 0 ≤ e then roundDbl (m * 10 ^ e.toNat) 1 else roundDbl m (10 ^ (-e).toNat)

/-- TODAY's value clause of `json_number//1` for a float token (a fraction is present or the
    exponent is negative), magnitude only (the multiplication by `Sign` is exact):
    `Fraction is Value / 10.0 ^ (Power + 1)` and
    `Number is Sign * (Integer + Fraction) * Base ^ Exponent` with `Base = 10` for
    `Exponent >= 0`, `10.0` otherwise — up to four roundings (finding C41-2).
    `none` = a float overflow on the way (evaluation error). -/
def pinnedMag (ids : List Char) (frac : Option (List Char)) (ex : Int) : Option Dbl :=
  let sum : Option Dbl :=
    match frac with
    | none => Dbl.ofNat (digitsVal ids)
    | some fds =>
      match Dbl.ofNat (digitsVal fds), Dbl.pow10 fds.length, Dbl.ofNat (digitsVal ids) with
      | some v, some p, some i =>
        match Dbl.div v p with
        | some f => Dbl.add i f
        | none => none
      | _, _, _ => none
  match sum, Dbl.pow10 ex with
  | some s, some p => Dbl.mul s p
  | _, _ => none

/-- the decimal `(m, e)` (not normalised) a float token denotes -/
def tokenDec (ids : List Char) (frac : Option (List Char)) (ex : Int) : Nat × Int :=
  match frac with
  | none => (digitsVal ids, ex)
  | some fds => (digitsVal (ids ++ fds), ex - (fds.length : Int))

end Scryer.Json
