/-
Model of the TWO arithmetic evaluators of scryer-prolog and of their per-functor dispatch.

* compiled evaluator: `ArithmeticEvaluator::compile_is` (src/arithmetic.rs) turns a source expression
  into post-order arithmetic instructions (`Instruction::Add(a1, a2, t)` …, chosen by
  `get_unary_instr` / `get_binary_instr` / `push_literal`); a functor it does not know is a compile-time
  `type_error(evaluable, F/N)`. At run time each instruction (`*_instr` in src/machine/dispatch.rs)
  fetches its operands with `get_number` — a literal, an intermediate register, or a clause variable
  whose binding is evaluated ON DEMAND by the run-time evaluator when it is not a number — and calls a
  function of src/machine/arithmetic_ops.rs.
* run-time evaluator: `MachineState::arith_eval_by_metacall` walks the term in post-order with a stack
  `interms` of numbers and a `match name` per arity.

Which function a functor is routed to, with which argument order and operand conversion, is DATA:
`Row`/`Table`. The two real tables are extracted from the source on every check run
(lean/ScryerModel/Extracted/EvalTables.lean). What the arithmetic_ops functions compute is a parameter
(`Sem`): C01/C02 are about that. Imports nothing.
-/
namespace Scryer.ArithEval

/-- functor, arity, arithmetic_ops function, order in which the functor's arguments are passed to it,
    how each argument is fetched (`number` = get_number, `rational` = get_rational/rational_from_number). -/
structure Row where
  functor : String
  arity : Nat
  fn : String
  args : List Nat
  fetch : List String
  deriving Repr, DecidableEq

abbrev Table := List Row

def Table.find (t : Table) (f : String) (n : Nat) : Option Row :=
  List.find? (fun r => r.functor == f && r.arity == n) t

/-- formal error terms. -/
inductive Err where
  | evaluable (f : String) (n : Nat)     -- type_error(evaluable, F/N)
  | inst                                 -- instantiation_error
  | op (code : String)                   -- whatever an arithmetic_ops function / conversion raises
  deriving Repr, DecidableEq

/-- expressions. `bound t` is a clause variable that is bound to the term `t` when the goal runs (for
    the run-time evaluator it is just `t`: the heap walk dereferences). -/
inductive Term (V : Type) where
  | num (v : V)
  | unbound
  | atom (f : String)
  | app1 (f : String) (a : Term V)
  | app2 (f : String) (a b : Term V)
  | bound (t : Term V)
  deriving Repr

/-- what the arithmetic_ops functions and the operand conversions compute (uninterpreted). -/
structure Sem (V : Type) where
  apply : String → List V → Except Err V
  conv : String → V → Except Err V       -- `number` ↦ identity in the real code, `rational` ↦ rational_from_number

variable {V : Type}

def convAll (sem : Sem V) : List String → List V → Except Err (List V)
  | k :: ks, v :: vs =>
      match sem.conv k v with
      | .error e => .error e
      | .ok v' =>
        match convAll sem ks vs with
        | .error e => .error e
        | .ok r => .ok (v' :: r)
  | _, _ => .ok []

/-- call the row's function on the (converted) operands in the row's argument order. -/
def applyRow (sem : Sem V) (row : Row) (vs : List V) : Except Err V :=
  match convAll sem row.fetch vs with
  | .error e => .error e
  | .ok cs => sem.apply row.fn (row.args.filterMap fun i => cs[i - 1]?)

/-! ### the run-time evaluator: post-order walk with a stack -/

inductive Tok (V : Type) where
  | push (v : V)
  | unbound
  | fn (f : String) (n : Nat)

/-- `stackful_post_order_iter`: operands before their functor, left to right. -/
def tokens : Term V → List (Tok V)
  | .num v => [.push v]
  | .unbound => [.unbound]
  | .atom f => [.fn f 0]
  | .app1 f a => tokens a ++ [.fn f 1]
  | .app2 f a b => tokens a ++ tokens b ++ [.fn f 2]
  | .bound t => tokens t

/-- the `while let Some(value) = iter.next()` loop of `arith_eval_by_metacall` over `interms`. -/
def runStack (mt : Table) (sem : Sem V) : List (Tok V) → List V → Except Err V
  | [], v :: _ => .ok v                               -- `Ok(interms.pop().unwrap())`
  | [], [] => .error .inst                            -- unreachable for token lists of terms
  | .push v :: r, st => runStack mt sem r (v :: st)
  | .unbound :: _, _ => .error .inst
  | .fn f 0 :: r, st =>
      match mt.find f 0 with
      | none => .error (.evaluable f 0)
      | some row =>
        match applyRow sem row [] with
        | .error e => .error e
        | .ok v => runStack mt sem r (v :: st)
  | .fn f 1 :: r, a1 :: st =>
      match mt.find f 1 with
      | none => .error (.evaluable f 1)
      | some row =>
        match applyRow sem row [a1] with
        | .error e => .error e
        | .ok v => runStack mt sem r (v :: st)
  | .fn f 2 :: r, a2 :: a1 :: st =>                    -- `let a2 = pop; let a1 = pop`
      match mt.find f 2 with
      | none => .error (.evaluable f 2)
      | some row =>
        match applyRow sem row [a1, a2] with
        | .error e => .error e
        | .ok v => runStack mt sem r (v :: st)
  | .fn f n :: _, _ => .error (.evaluable f n)         -- other arities / stack underflow: unreachable

def evalMeta (mt : Table) (sem : Sem V) (t : Term V) : Except Err V := runStack mt sem (tokens t) []

/-- the same evaluation written as a structural recursion (equal to `evalMeta`, see Proofs). -/
def evalRec (mt : Table) (sem : Sem V) : Term V → Except Err V
  | .num v => .ok v
  | .unbound => .error .inst
  | .atom f =>
      match mt.find f 0 with
      | none => .error (.evaluable f 0)
      | some row => applyRow sem row []
  | .app1 f a =>
      match evalRec mt sem a with
      | .error e => .error e
      | .ok va =>
        match mt.find f 1 with
        | none => .error (.evaluable f 1)
        | some row => applyRow sem row [va]
  | .app2 f a b =>
      match evalRec mt sem a with
      | .error e => .error e
      | .ok va =>
        match evalRec mt sem b with
        | .error e => .error e
        | .ok vb =>
          match mt.find f 2 with
          | none => .error (.evaluable f 2)
          | some row => applyRow sem row [va, vb]
  | .bound t => evalRec mt sem t

/-! ### the compiled evaluator -/

/-- compile time: the first functor (post-order, as `compile_is` iterates) that the compiler's tables
    do not know. Variables are opaque at compile time. -/
def firstUnknown (ct : Table) : Term V → Option (String × Nat)
  | .num _ => none
  | .unbound => none
  | .bound _ => none
  | .atom f => if (ct.find f 0).isSome then none else some (f, 0)
  | .app1 f a =>
      match firstUnknown ct a with
      | some x => some x
      | none => if (ct.find f 1).isSome then none else some (f, 1)
  | .app2 f a b =>
      match firstUnknown ct a with
      | some x => some x
      | none =>
        match firstUnknown ct b with
        | some x => some x
        | none => if (ct.find f 2).isSome then none else some (f, 2)

/-- an operand of an arithmetic instruction at run time. -/
inductive Opnd (V : Type) where
  | val (v : V)             -- ArithmeticTerm::Number / IntermReg: already a number
  | reg (t : Term V)        -- ArithmeticTerm::Reg: a clause variable and what it is bound to

/-- `get_number`: a number is taken as it is; anything else goes to the run-time evaluator
    (`mt` is ITS table). -/
def getNumber (mt : Table) (sem : Sem V) : Opnd V → Except Err V
  | .val v => .ok v
  | .reg (.num v) => .ok v
  | .reg t => evalMeta mt sem t

/-- run the instructions compiled for `t` (post-order: the code of both sub-expressions runs before the
    instruction of their parent, which then fetches its operands left to right). -/
def runCode (ct mt : Table) (sem : Sem V) : Term V → Except Err (Opnd V)
  | .num v => .ok (.val v)
  | .unbound => .ok (.reg .unbound)
  | .bound t => .ok (.reg t)
  | .atom f =>
      match ct.find f 0 with
      | none => .error (.evaluable f 0)
      | some row =>
        match applyRow sem row [] with
        | .error e => .error e
        | .ok v => .ok (.val v)
  | .app1 f a =>
      match runCode ct mt sem a with
      | .error e => .error e
      | .ok oa =>
        match ct.find f 1 with
        | none => .error (.evaluable f 1)
        | some row =>
          match getNumber mt sem oa with
          | .error e => .error e
          | .ok va =>
            match applyRow sem row [va] with
            | .error e => .error e
            | .ok v => .ok (.val v)
  | .app2 f a b =>
      match runCode ct mt sem a with
      | .error e => .error e
      | .ok oa =>
        match runCode ct mt sem b with
        | .error e => .error e
        | .ok ob =>
          match ct.find f 2 with
          | none => .error (.evaluable f 2)
          | some row =>
            match getNumber mt sem oa with
            | .error e => .error e
            | .ok va =>
              match getNumber mt sem ob with
              | .error e => .error e
              | .ok vb =>
                match applyRow sem row [va, vb] with
                | .error e => .error e
                | .ok v => .ok (.val v)

/-- `X is E` with `E` written in the clause: compile (or fail with the first unknown functor), run the
    code, fetch the result operand. -/
def evalCompiled (ct mt : Table) (sem : Sem V) (t : Term V) : Except Err V :=
  match firstUnknown ct t with
  | some (f, n) => .error (.evaluable f n)
  | none =>
    match runCode ct mt sem t with
    | .error e => .error e
    | .ok o => getNumber mt sem o

/-- no clause variable occurs in the expression. -/
def closed : Term V → Bool
  | .num _ => true
  | .unbound => false
  | .atom _ => true
  | .app1 _ a => closed a
  | .app2 _ a b => closed a && closed b
  | .bound _ => false

end Scryer.ArithEval
