#!/bin/sh
# usage: tools/mutant_check.sh <Cxx> <patch.diff> [quick|thorough]
# Applies <patch.diff> to a PRIVATE worktree of /repo (never /repo itself), builds a private copy of
# the harness against it and runs ./check <Cxx> with evidence/replays redirected to the scratch dir.
# The environment /tmp/mut-<Cxx>/ is kept between calls (incremental builds); remove it with
# tools/mutant_clean.sh <Cxx> when done.
set -e
# <patch.diff> may be a colon-separated list of patches applied in order (e.g. a hook patch that is
# not yet in /repo, then the mutant). With SV_KEEP_HARNESS=1 the private harness copy
# /tmp/mut-<Cxx>/harness/src is NOT refreshed from /verif/harness/src (for developing a new
# harness family privately).
P=$1; PATCHES=$2; TIER=${3:-quick}
V=$(cd "$(dirname "$0")/.." && pwd)
W=/tmp/mut-$P
mkdir -p $W
if [ ! -d $W/repo ]; then
  git -C /repo worktree add --detach $W/repo HEAD -q
fi
git -C $W/repo checkout -q --detach $(git -C /repo rev-parse HEAD)
git -C $W/repo checkout -q -- . && git -C $W/repo clean -fdq -e target
OLDIFS=$IFS; IFS=:
for PATCH in $PATCHES; do
  PATCH=$(realpath "$PATCH")
  if [ "$PATCH" != "/dev/null" ] && [ -s "$PATCH" ]; then
    git -C $W/repo apply "$PATCH"
  fi
done
IFS=$OLDIFS
mkdir -p $W/harness/.cargo
if [ -z "$SV_KEEP_HARNESS" ] || [ ! -d $W/harness/src ]; then
  rsync -a --delete $V/harness/src/ $W/harness/src/
fi
sed "s#path = \"/repo\"#path = \"$W/repo\"#" $V/harness/Cargo.toml > $W/harness/Cargo.toml
cp $V/harness/Cargo.lock $W/harness/Cargo.lock
printf '[net]\noffline = true\n[build]\ntarget-dir = "%s/target"\n' $W > $W/harness/.cargo/config.toml
if [ ! -d $W/target ]; then
  # seed with the third-party artefacts of the main build to shorten the first build
  cp -a $V/build/target $W/target 2>/dev/null || true
fi
(cd $W/harness && CARGO_NET_OFFLINE=true CARGO_TARGET_DIR=$W/target CARGO_BUILD_JOBS=8 $V/tools/slot.py cargo 3 -- cargo build --release --offline 2>&1 | tail -3)
mkdir -p $W/out
cd $V
set +e
SV_HARNESS_BIN=$W/target/release/sv-harness SV_OUT_DIR=$W/out SV_NO_LEANCHECKER=1 ./check $P --tier $TIER
RC=$?
set -e
git -C $W/repo checkout -q -- .
echo "mutant_check: exit=$RC (1 = violation reported, 0 = not detected)"
exit $RC
