#!/bin/sh
# usage: tools/seed_verify.sh <seeded/dir> [check-id]
# Lead-only confirmation of a seeded change: in a scratch worktree of /repo (HEAD) under /tmp/seedv-$$,
#   1. build unmodified, run demo/run.sh (must exit 0),
#   2. apply patch.diff, build (must compile), run demo/run.sh (must exit non-zero),
#   3. run the existing tests with the patch (lib tests + tests/scryer minus cli_tests; must pass),
# then remove the worktree and its build output. Appends the outcome to <dir>/verified.txt.
set -u
D=$(realpath "$1")
W=/tmp/seedv-$$
export CARGO_NET_OFFLINE=true CARGO_BUILD_JOBS=${CARGO_BUILD_JOBS:-8}
git -C /repo worktree add --detach $W HEAD -q || exit 2
cd $W
R=$D/verified.txt
{
echo "== $(date -u +%FT%TZ) repo HEAD $(git -C /repo rev-parse --short HEAD)"
cargo build --offline 2>&1 | tail -1
cp target/debug/scryer-prolog /tmp/seedv-$$-base
sh $D/demo/run.sh /tmp/seedv-$$-base >/dev/null 2>&1; echo "demo on unmodified tree: exit $? (expected 0)"
git apply $D/patch.diff && echo "patch applies"
cargo build --offline 2>&1 | tail -1
sh $D/demo/run.sh $W/target/debug/scryer-prolog >/dev/null 2>&1; echo "demo with the change: exit $? (expected non-zero)"
cargo test --offline --lib 2>&1 | grep "^test result" | head -3
cargo test --offline --test scryer -- --skip cli_tests 2>&1 | grep "^test result" | head -3
} >> $R 2>&1
cd /
git -C /repo worktree remove --force $W
rm -rf $W /tmp/seedv-$$-base
git -C /repo worktree prune
tail -8 $R
