#!/usr/bin/env python3
"""Regenerates the table of genuine defects in DESIGN.md (section 16.2) from known_findings.json."""
import json, os, re
ROOT = os.path.dirname(os.path.dirname(os.path.abspath(__file__)))
d = json.load(open(os.path.join(ROOT, "known_findings.json")))["findings"]
rows = []
for f in sorted(d, key=lambda f: (f["property"], f["id"])):
    what = f["what"]
    what = re.sub(r"^fixed: property=\S+ \S+ ", "", what).replace("|", "\\|").replace("\n", " ")
    status = ("fixed in /repo %s" % f.get("commit")) if f["status"] == "fixed" else "**open** (listed; reported as KNOWN-FINDING)"
    rows.append("| %s | %s | %s | %s |" % (f["property"], f["id"], what, status))
table = "| property | id | failing input and what went wrong | status |\n|---|---|---|---|\n" + "\n".join(rows) + "\n"
p = os.path.join(ROOT, "DESIGN.md")
s = open(p).read()
a = s.index("### 16.2 ")
b = s.index("### 16.3 ")
nfix = sum(1 for f in d if f["status"] == "fixed")
nopen = sum(1 for f in d if f["status"] != "fixed")
head = ("### 16.2 Genuine defects found (generated from known_findings.json by tools/findings_table.py)\n"
        "%d defects repaired by one `fix:` commit each in /repo, %d recorded as open findings (their repair is not small or "
        "conflicts with what the pinned suite expects). Every entry was reproduced on the real implementation by the "
        "property's check; each fixed entry's check is quiet on the repaired tree and reports the violation again if the "
        "fix is reverted (the reverts are among the mutants in corpus/Cxx/mutants). The pinned suite "
        "(`cargo nextest … --profile pb`: 120 pass; `cli_tests` fails/times out as on the pinned tree, it is in BASELINE "
        "`always_fail`) was run after every batch of fixes.\n\n" % (nfix, nopen))
open(p, "w").write(s[:a] + head + table + "\n" + s[b:])
print("rows", len(rows))
