#!/bin/sh
# usage: tools/mutant_clean.sh <Cxx>  — removes the private worktree and build output
P=$1; W=/tmp/mut-$P
git -C /repo worktree remove --force $W/repo 2>/dev/null || true
rm -rf $W
git -C /repo worktree prune
