#!/bin/sh
# usage: tools/lake.sh build <targets…>   — lake in /verif/lean under a per-property build lock
# (the lock name is derived from the first Cxx found in the targets, so different properties build
# in parallel while two builds of the same property are serialised)
V=$(cd "$(dirname "$0")/.." && pwd)
mkdir -p $V/build
K=$(echo "$*" | grep -o 'C[0-9][0-9]' | head -1)
exec flock $V/build/.lake.lock.${K:-shared} sh -c "cd $V/lean && lake $*"
