#!/bin/sh
# usage: tools/lake.sh build <targets…>   — lake in /verif/lean under the shared build lock
V=$(cd "$(dirname "$0")/.." && pwd)
mkdir -p $V/build
exec flock $V/build/.lake.lock sh -c "cd $V/lean && lake $*"
