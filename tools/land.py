#!/usr/bin/env python3
"""usage: tools/land.py Cxx [Cyy …]
Lead-only: merges notes/claims/Cxx.json into claims.json (normalising the fields), regenerates
MANIFEST.json and validates it against /root/.vp/MANIFEST.schema.json. Does not run the check."""
import importlib
import json
import os
import subprocess
import sys

ROOT = os.path.dirname(os.path.dirname(os.path.abspath(__file__)))
sys.path.insert(0, ROOT)

DEFAULT_TECH = ("Lean 4 theorems over a hand-written model of the anchored code; differential "
                "correspondence (model driver vs rebuilt crate)")


def norm(pid, c):
    mod = importlib.import_module("vlib.props." + pid)
    text = (c.get("level_text") or "").strip()
    note = (c.get("level_note") or "").strip()
    if len(text) < 400 and len(note) > 600 and not text.lower().startswith("proof:"):
        # a short qualifier in level_text, the real description in level_note: combine them
        qual = text
        head = "Proof (partial)" if "partial" in qual.lower() else "Proof"
        text = head + (" [" + qual + "]" if len(qual) >= 60 else "") + ": " + note
        note = ""
    elif len(text) < 60:
        # the builder put the level word in level_text and the description in level_note
        word = text.lower()
        head = "Proof (partial)" if "partial" in word else "Proof"
        text = head + ": " + note
        note = ""
    if not note:
        tb = getattr(mod, "TRUSTED_BASE", [])
        asm = getattr(mod, "ASSUMPTIONS", [])
        note = "Trusted: Lean kernel + the three standard axioms; " + "; ".join(tb)
        if asm:
            note += ". Assumes: " + "; ".join(asm)
    return {"level_text": text, "level_note": note, "technique": c.get("technique") or DEFAULT_TECH}


def main():
    claims_p = os.path.join(ROOT, "claims.json")
    claims = json.load(open(claims_p))
    for pid in sys.argv[1:]:
        c = json.load(open(os.path.join(ROOT, "notes", "claims", pid + ".json")))
        claims[pid] = norm(pid, c)
        print("landed", pid, "| text", len(claims[pid]["level_text"]), "chars")
    claims = dict(sorted(claims.items()))
    with open(claims_p, "w") as fh:
        json.dump(claims, fh, indent=1, ensure_ascii=False)
    subprocess.check_call([sys.executable, "-m", "vlib.manifest"], cwd=ROOT)
    try:
        import jsonschema
    except ImportError:
        print("jsonschema not importable here; validate with python3-vt")
        return
    jsonschema.validate(json.load(open(os.path.join(ROOT, "MANIFEST.json"))),
                        json.load(open("/root/.vp/MANIFEST.schema.json")))
    print("MANIFEST.json valid")


if __name__ == "__main__":
    main()
