#!/usr/bin/env python3
"""usage: tools/slot.py <name> <nslots> -- cmd args…
Runs cmd while holding one of <nslots> machine-wide slot locks /tmp/sv-slot-<name>-<i>.lock
(polling), so that at most <nslots> heavy jobs of that kind run at once."""
import fcntl, os, subprocess, sys, time
name, n = sys.argv[1], int(sys.argv[2])
cmd = sys.argv[sys.argv.index("--") + 1:]
fds = [open("/tmp/sv-slot-%s-%d.lock" % (name, i), "w") for i in range(n)]
held = None
while held is None:
    for f in fds:
        try:
            fcntl.flock(f, fcntl.LOCK_EX | fcntl.LOCK_NB)
            held = f
            break
        except OSError:
            pass
    if held is None:
        time.sleep(1.0)
sys.exit(subprocess.call(cmd))
